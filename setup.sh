#!/bin/bash
# Offline setup: warms the dependency builds used by the checks (nothing is fetched).
set -e
cd "$(dirname "$0")"
export CARGO_NET_OFFLINE=true
mkdir -p .cache evidence replays
python3-vt -c "import z3; print('z3', z3.get_version_string())"
python3-vt - <<'PY'
import sys
sys.path.insert(0, '.')
from fv import common as C
C.mir_functions()
print('mir ok')
PY
