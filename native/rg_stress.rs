// Stress replay for the generation-overlap obligation (C10, Q4b): several threads grow a small map through many
// generations at once (inserts that cross thresholds, and reserve()).  After all threads have left, the map must not be in
// a resizing state; no thread may have panicked in the resize asserts; dropping the map must not panic.
use flurry::HashMap;
use flurry::verif_inspect as vi;
use std::sync::Arc;
#[derive(Clone, Default)]
struct Ident;
impl std::hash::BuildHasher for Ident { type Hasher = IdH; fn build_hasher(&self) -> IdH { IdH(0) } }
struct IdH(u64);
impl std::hash::Hasher for IdH {
    fn finish(&self) -> u64 { self.0 }
    fn write(&mut self, b: &[u8]) { for x in b { self.0 = (self.0 << 8) | *x as u64; } }
    fn write_u64(&mut self, v: u64) { self.0 = v; }
}
fn main() {
    let args: Vec<String> = std::env::args().collect();
    let secs: u64 = args.get(1).and_then(|x| x.parse().ok()).unwrap_or(20);
    let threads: u64 = args.get(2).and_then(|x| x.parse().ok()).unwrap_or(8);
    std::panic::set_hook(Box::new(|_| {}));
    let t0 = std::time::Instant::now();
    let (mut rounds, mut bad) = (0u64, 0u64);
    let mut first = String::new();
    while t0.elapsed().as_secs() < secs && bad < 3 {
        rounds += 1;
        let m: Arc<HashMap<u64, u64, Ident>> = Arc::new(HashMap::with_hasher(Ident));
        let hs: Vec<_> = (0..threads).map(|t| {
            let m = m.clone();
            std::thread::spawn(move || {
                std::panic::catch_unwind(std::panic::AssertUnwindSafe(|| {
                    for i in 0..128u64 {
                        let k = t * 1000 + i;
                        m.insert(k, k, &m.guard());
                        if !m.contains_key(&k, &m.guard()) { panic!("lost key"); }
                    }
                })).map_err(|e| e.downcast_ref::<String>().cloned().or_else(|| e.downcast_ref::<&str>().map(|s| s.to_string())).unwrap_or_default())
            })
        }).collect();
        let mut why = String::new();
        for h in hs {
            match h.join() { Ok(Ok(())) => {}, Ok(Err(msg)) => why = format!("a thread panicked: {}", msg), Err(_) => why = "a thread died".into() }
        }
        if why.is_empty() {
            let (sc, ntnull, len) = (vi::size_ctl(&m), vi::next_table_is_null(&m), vi::table_len(&m));
            if sc < 0 || !ntnull {
                why = format!("all {} threads have returned but the map is still resizing: size_ctl = {} (stamp {:#x}, resizers+1 = {}), next_table null = {}, table_len = {}", threads, sc, (sc as u64) >> vi::resize_stamp_shift(), sc & 0xffff, ntnull, len);
            } else if m.len() != (threads * 128) as usize {
                why = format!("len() = {} after {} distinct inserts", m.len(), threads * 128);
            }
        }
        let m = Arc::try_unwrap(m).ok().unwrap();
        if why.is_empty() {
            if std::panic::catch_unwind(std::panic::AssertUnwindSafe(move || drop(m))).is_err() { why = "drop(map) panicked".into(); }
        } else {
            std::mem::forget(m);
        }
        if !why.is_empty() {
            bad += 1;
            if first.is_empty() { first = format!("round {}: {}", rounds, why); }
        }
    }
    println!("stress rounds={} bad={} first={}", rounds, bad, first);
}
