// Read-only inspector, appended by /verif to `src/map.rs` of a *scratch copy* of the repository (never to /repo).
// Being a child module of `map` it can read HashMap's private fields.
#[doc(hidden)]
#[allow(missing_docs, unreachable_pub, dead_code, missing_debug_implementations, clippy::all)]
pub mod verif_inspect {
    use super::*;
    use crate::node::{BinEntry, TreeNode};
    use std::sync::atomic::Ordering;

    pub fn table_len<K, V, S>(m: &HashMap<K, V, S>) -> usize {
        let guard = unsafe { Guard::unprotected() };
        let t = m.table.load(Ordering::SeqCst, &guard);
        if t.is_null() {
            0
        } else {
            unsafe { t.deref() }.len()
        }
    }
    pub fn size_ctl<K, V, S>(m: &HashMap<K, V, S>) -> isize {
        m.size_ctl.load(Ordering::SeqCst)
    }
    pub fn transfer_index<K, V, S>(m: &HashMap<K, V, S>) -> isize {
        m.transfer_index.load(Ordering::SeqCst)
    }
    pub fn count<K, V, S>(m: &HashMap<K, V, S>) -> isize {
        m.count.load(Ordering::SeqCst)
    }
    pub fn next_table_is_null<K, V, S>(m: &HashMap<K, V, S>) -> bool {
        let guard = unsafe { Guard::unprotected() };
        m.next_table.load(Ordering::SeqCst, &guard).is_null()
    }
    pub fn resize_stamp(n: usize) -> isize {
        HashMap::<u8, u8, ()>::resize_stamp(n)
    }
    pub fn resize_stamp_shift() -> usize {
        RESIZE_STAMP_SHIFT
    }
    pub fn max_resizers() -> isize {
        MAX_RESIZERS
    }

    /// Simulates a writer that is suspended in the middle of restructuring a tree bin: overwrites the bin's
    /// `lock_state` (WRITER = 1, WAITER = 2, READER = 4). Returns false if bin `i` is not a tree bin.
    pub fn force_tree_lock_state<K, V, S>(m: &HashMap<K, V, S>, i: usize, state: i64) -> bool {
        let guard = unsafe { Guard::unprotected() };
        let t = m.table.load(Ordering::SeqCst, &guard);
        if t.is_null() {
            return false;
        }
        let t = unsafe { t.deref() };
        if i >= t.len() {
            return false;
        }
        let b = t.bin(i, &guard);
        if b.is_null() {
            return false;
        }
        match **unsafe { b.deref() } {
            BinEntry::Tree(ref tb) => {
                tb.lock_state.store(state, Ordering::SeqCst);
                true
            }
            _ => false,
        }
    }

    /// One line per bin: `i E` (empty) | `i M` (moved) | `i L hash:key ...` | `i T root=<id> first=<id> | id hash key parent left right prev next red ...`
    /// Node identities are small integers assigned in list order (0 = null).
    pub fn dump<K: std::fmt::Debug, V, S>(m: &HashMap<K, V, S>) -> Vec<String> {
        let guard = unsafe { Guard::unprotected() };
        let mut out = Vec::new();
        let t = m.table.load(Ordering::SeqCst, &guard);
        if t.is_null() {
            return out;
        }
        let t = unsafe { t.deref() };
        for i in 0..t.len() {
            let b = t.bin(i, &guard);
            if b.is_null() {
                out.push(format!("{} E", i));
                continue;
            }
            match **unsafe { b.deref() } {
                BinEntry::Moved => out.push(format!("{} M", i)),
                BinEntry::Node(_) => {
                    let mut s = format!("{} L", i);
                    let mut p = b;
                    while !p.is_null() {
                        let n = unsafe { p.deref() }.as_node().unwrap();
                        s.push_str(&format!(" {}:{:?}", n.hash, n.key));
                        p = n.next.load(Ordering::SeqCst, &guard);
                    }
                    out.push(s);
                }
                BinEntry::Tree(ref tb) => {
                    let mut ids: Vec<usize> = Vec::new();
                    let mut p = tb.first.load(Ordering::SeqCst, &guard);
                    while !p.is_null() {
                        ids.push(unsafe { p.as_ptr() } as usize);
                        let tn = unsafe { TreeNode::get_tree_node(p) };
                        p = tn.node.next.load(Ordering::SeqCst, &guard);
                        if ids.len() > 100000 {
                            break;
                        }
                    }
                    let id = |q: Shared<'_, BinEntry<K, V>>| -> isize {
                        if q.is_null() {
                            0
                        } else {
                            let a = unsafe { q.as_ptr() } as usize;
                            match ids.iter().position(|x| *x == a) {
                                Some(k) => (k + 1) as isize,
                                None => -1,
                            }
                        }
                    };
                    let mut s = format!(
                        "{} T root={} first={} lock_state={} |",
                        i,
                        id(tb.root.load(Ordering::SeqCst, &guard)),
                        id(tb.first.load(Ordering::SeqCst, &guard)),
                        tb.lock_state.load(Ordering::SeqCst)
                    );
                    let mut p = tb.first.load(Ordering::SeqCst, &guard);
                    let mut cnt = 0;
                    while !p.is_null() && cnt < 100000 {
                        cnt += 1;
                        let tn = unsafe { TreeNode::get_tree_node(p) };
                        s.push_str(&format!(
                            " [{} {} {:?} {} {} {} {} {} {}]",
                            id(p),
                            tn.node.hash,
                            tn.node.key,
                            id(tn.parent.load(Ordering::SeqCst, &guard)),
                            id(tn.left.load(Ordering::SeqCst, &guard)),
                            id(tn.right.load(Ordering::SeqCst, &guard)),
                            id(tn.prev.load(Ordering::SeqCst, &guard)),
                            id(tn.node.next.load(Ordering::SeqCst, &guard)),
                            tn.red.load(Ordering::SeqCst) as u8
                        ));
                        p = tn.node.next.load(Ordering::SeqCst, &guard);
                    }
                    out.push(s);
                }
                BinEntry::TreeNode(_) => out.push(format!("{} BAD-TREENODE-HEAD", i)),
            }
        }
        out
    }
}
