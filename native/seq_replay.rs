// Native replay of a sequential scenario found by the concrete-heap engine.
// usage: replay cap=<n|none> facade=<guard|ref> hash=<k:h,k:h,...> prefill=<k,k,...> keep=<0/1,...> panic_at=<i|0> ops=<op:key,op:key,...>
// Compares every return value, len(), iteration and (through the injected inspector) the table shape with a reference
// std::collections::BTreeMap, counts every key/value instance created and dropped, and reports the first discrepancy.
use flurry::HashMap;
use std::collections::BTreeMap;
use std::panic::{catch_unwind, AssertUnwindSafe};
use std::sync::atomic::{AtomicUsize, Ordering};
use std::sync::Mutex;

static NEXT_ID: AtomicUsize = AtomicUsize::new(1);
static CMPS: AtomicUsize = AtomicUsize::new(0);
static INJECTED: std::sync::atomic::AtomicBool = std::sync::atomic::AtomicBool::new(false);
static DROPS: Mutex<Vec<u32>> = Mutex::new(Vec::new());
static HASHES: Mutex<Vec<(u8, u64)>> = Mutex::new(Vec::new());

fn new_id() -> usize {
    let id = NEXT_ID.fetch_add(1, Ordering::SeqCst);
    let mut d = DROPS.lock().unwrap();
    if d.len() <= id {
        d.resize(id + 1, 0);
    }
    id
}
fn note_drop(id: usize) {
    DROPS.lock().unwrap()[id] += 1;
}

struct Key {
    k: u8,
    tag: u32,
    id: usize,
}
impl std::fmt::Debug for Key {
    fn fmt(&self, f: &mut std::fmt::Formatter<'_>) -> std::fmt::Result {
        write!(f, "{}", self.k)
    }
}
impl Key {
    fn new(k: u8, tag: u32) -> Key {
        Key { k, tag, id: new_id() }
    }
}
impl Clone for Key {
    fn clone(&self) -> Key {
        Key { k: self.k, tag: self.tag, id: new_id() }
    }
}
impl Drop for Key {
    fn drop(&mut self) {
        note_drop(self.id)
    }
}
impl PartialEq for Key {
    fn eq(&self, o: &Key) -> bool {
        CMPS.fetch_add(1, Ordering::Relaxed);
        self.k == o.k
    }
}
impl Eq for Key {}
impl PartialOrd for Key {
    fn partial_cmp(&self, o: &Key) -> Option<std::cmp::Ordering> {
        Some(self.cmp(o))
    }
}
impl Ord for Key {
    fn cmp(&self, o: &Key) -> std::cmp::Ordering {
        CMPS.fetch_add(1, Ordering::Relaxed);
        self.k.cmp(&o.k)
    }
}
impl std::hash::Hash for Key {
    fn hash<H: std::hash::Hasher>(&self, h: &mut H) {
        h.write_u8(self.k)
    }
}
#[derive(Debug)]
struct Val {
    v: u64,
    id: usize,
}
impl Clone for Val {
    fn clone(&self) -> Val {
        Val { v: self.v, id: new_id() }
    }
}
impl PartialEq for Val {
    fn eq(&self, o: &Val) -> bool {
        self.v == o.v
    }
}
impl Val {
    fn new(v: u64) -> Val {
        Val { v, id: new_id() }
    }
}
impl Drop for Val {
    fn drop(&mut self) {
        note_drop(self.id)
    }
}
#[derive(Clone, Default)]
struct TableHasher;
struct TH(u64);
impl std::hash::BuildHasher for TableHasher {
    type Hasher = TH;
    fn build_hasher(&self) -> TH {
        TH(0)
    }
}
impl std::hash::Hasher for TH {
    fn finish(&self) -> u64 {
        self.0
    }
    fn write(&mut self, _: &[u8]) {}
    fn write_u8(&mut self, k: u8) {
        let t = HASHES.lock().unwrap();
        self.0 = t.iter().find(|(kk, _)| *kk == k).map(|(_, h)| *h).unwrap_or(k as u64);
    }
}

struct HintIter {
    items: std::vec::IntoIter<(Key, Val)>,
    lower: usize,
}
impl Iterator for HintIter {
    type Item = (Key, Val);
    fn next(&mut self) -> Option<(Key, Val)> {
        self.items.next()
    }
    fn size_hint(&self) -> (usize, Option<usize>) {
        let rest = self.items.len();
        (self.lower.min(rest), Some(rest))
    }
}

fn fail(msg: String) -> ! {
    println!("REPLAY mismatch: {}", msg);
    std::process::exit(0)
}

#[derive(Clone, Debug)]
struct TN { id: i64, hash: u64, key: u64, parent: i64, left: i64, right: i64, prev: i64, next: i64, red: bool }

fn tree_check(line: &str, bin: usize, n: usize, when: &str) {
    let (head, rest) = line.split_once('|').unwrap();
    let root: i64 = head.split("root=").nth(1).unwrap().split_whitespace().next().unwrap().parse().unwrap();
    let first: i64 = head.split("first=").nth(1).unwrap().split_whitespace().next().unwrap().parse().unwrap();
    let ls: i64 = head.split("lock_state=").nth(1).unwrap().split_whitespace().next().unwrap().parse().unwrap();
    if ls != 0 {
        fail(format!("{}: bin {}: tree lock_state = {} at quiescence", when, bin, ls));
    }
    let mut nodes: Vec<TN> = vec![];
    for part in rest.split('[').skip(1) {
        let f: Vec<&str> = part.trim().trim_end_matches(']').split_whitespace().collect();
        let p = |i: usize| -> i64 { f[i].parse().unwrap() };
        nodes.push(TN { id: p(0), hash: f[1].parse().unwrap(), key: f[2].parse().unwrap(), parent: p(3), left: p(4), right: p(5), prev: p(6), next: p(7), red: f[8] == "1" });
    }
    let get = |id: i64| -> Option<TN> { if id <= 0 { None } else { nodes.iter().find(|x| x.id == id).cloned() } };
    if nodes.is_empty() || first != nodes[0].id || root <= 0 {
        fail(format!("{}: bin {}: empty tree bin or bad first/root ({} / {})", when, bin, first, root));
    }
    for (i, t) in nodes.iter().enumerate() {
        let want_prev = if i == 0 { 0 } else { nodes[i - 1].id };
        let want_next = if i + 1 == nodes.len() { 0 } else { nodes[i + 1].id };
        if t.prev != want_prev || t.next != want_next {
            fail(format!("{}: bin {}: prev/next of node {} inconsistent with the list", when, bin, t.key));
        }
        if (t.hash as usize) & (n - 1) != bin {
            fail(format!("{}: bin {}: tree node with hash {} in the wrong bin", when, bin, t.hash));
        }
        for id in [t.parent, t.left, t.right] {
            if id < 0 {
                fail(format!("{}: bin {}: node {} links to a node that is not in the traversal list", when, bin, t.key));
            }
        }
    }
    let mut seen: Vec<i64> = vec![];
    fn walk(id: i64, parent: i64, lo: Option<(u64, u64)>, hi: Option<(u64, u64)>, get: &dyn Fn(i64) -> Option<TN>, seen: &mut Vec<i64>, bin: usize, when: &str, depth: usize) -> usize {
        let t = match get(id) { None => return 1, Some(t) => t };
        if depth > 64 || seen.contains(&id) {
            fail(format!("{}: bin {}: cyclic tree", when, bin));
        }
        seen.push(id);
        if t.parent != parent {
            fail(format!("{}: bin {}: parent link of {} wrong", when, bin, t.key));
        }
        if t.red {
            if let Some(p) = get(parent) {
                if p.red {
                    fail(format!("{}: bin {}: red node {} has a red parent", when, bin, t.key));
                }
            }
        }
        let hk = (t.hash, t.key);
        if let Some(l) = lo { if !(l < hk) { fail(format!("{}: bin {}: tree order violated at {}", when, bin, t.key)); } }
        if let Some(h) = hi { if !(hk < h) { fail(format!("{}: bin {}: tree order violated at {}", when, bin, t.key)); } }
        let l = walk(t.left, id, lo, Some(hk), get, seen, bin, when, depth + 1);
        let r = walk(t.right, id, Some(hk), hi, get, seen, bin, when, depth + 1);
        if l != r {
            fail(format!("{}: bin {}: black heights differ ({} vs {}) under key {}", when, bin, l, r, t.key));
        }
        l + if t.red { 0 } else { 1 }
    }
    if get(root).map(|r| r.red).unwrap_or(false) {
        fail(format!("{}: bin {}: red root", when, bin));
    }
    walk(root, 0, None, None, &get, &mut seen, bin, when, 0);
    if seen.len() != nodes.len() {
        fail(format!("{}: bin {}: the tree holds {} nodes, its traversal list {}", when, bin, seen.len(), nodes.len()));
    }
}

fn shape_check(m: &HashMap<Key, Val, TableHasher>, model: &BTreeMap<u8, (u32, u64)>, when: &str) {
    use flurry::verif_inspect as vi;
    let n = vi::table_len(m);
    if n != 0 {
        if n & (n - 1) != 0 {
            fail(format!("{}: table length {} is not a power of two", when, n));
        }
        if vi::size_ctl(m) != (n - (n >> 2)) as isize {
            fail(format!("{}: size_ctl {} != 0.75*{}", when, vi::size_ctl(m), n));
        }
    }
    if n != 0 && n < (1 << 30) && model.len() as isize >= vi::size_ctl(m) {
        fail(format!("{}: {} entries have reached the threshold {} of the {}-bin table but it did not grow", when, model.len(), vi::size_ctl(m), n));
    }
    if !vi::next_table_is_null(m) {
        fail(format!("{}: next_table not null at quiescence", when));
    }
    if vi::count(m) != model.len() as isize {
        fail(format!("{}: count cell {} but {} entries", when, vi::count(m), model.len()));
    }
    for line in vi::dump(m) {
        if line.ends_with(" M") || line.contains("BAD") {
            fail(format!("{}: bin line `{}`", when, line));
        }
        let mut it = line.split_whitespace();
        let i: usize = it.next().unwrap().parse().unwrap();
        let kind = it.next().unwrap();
        if kind == "L" {
            for e in it {
                let h: u64 = e.split(':').next().unwrap().parse().unwrap();
                if (h as usize) & (n - 1) != i {
                    fail(format!("{}: entry with hash {} sits in bin {} of {}", when, h, i, n));
                }
            }
        } else if kind == "T" {
            if n < 64 {
                fail(format!("{}: tree bin in a table of {} bins", when, n));
            }
            tree_check(&line, i, n, when);
            // C06: looking up any key, present or absent, costs about 4*log2(n+1) key comparisons at most
            let nodes = line.matches('[').count();
            let bound = 4 * ((nodes + 1) as f64).log2().ceil() as usize + 2;
            let g = m.guard();
            let mut probes: Vec<u8> = model.keys().cloned().collect();
            probes.extend([250u8, 251, 252, 253]);
            for pk in probes {
                let p = Key::new(pk, 9998);
                let h = { use std::hash::{BuildHasher, Hash, Hasher}; let mut hh = TableHasher.build_hasher(); p.hash(&mut hh); hh.finish() };
                if (h as usize) & (n - 1) != i {
                    continue;
                }
                let c0 = CMPS.load(Ordering::Relaxed);
                let _ = m.get(&p, &g);
                let c = CMPS.load(Ordering::Relaxed) - c0;
                if c > bound {
                    fail(format!("{}: get({}) ({}) in the tree bin {} of {} entries cost {} key comparisons, bound 4*ceil(log2(n+1))+2 = {}", when, pk, if model.contains_key(&pk) { "present" } else { "absent" }, i, nodes, c, bound));
                }
            }
        }
    }
    if m.len() != model.len() {
        fail(format!("{}: len() = {} but the reference holds {}", when, m.len(), model.len()));
    }
    if m.is_empty() != model.is_empty() {
        fail(format!("{}: is_empty() = {}", when, m.is_empty()));
    }
    let g = m.guard();
    let mut seen: BTreeMap<u8, (u32, u64)> = BTreeMap::new();
    for (k, v) in m.iter(&g) {
        if seen.insert(k.k, (k.tag, v.v)).is_some() {
            fail(format!("{}: iteration yields key {} twice", when, k.k));
        }
    }
    if &seen != model {
        fail(format!("{}: iteration yields {:?}, the reference holds {:?}", when, seen, model));
    }
    for (k, (_, v)) in model {
        let p = Key::new(*k, 9999);
        match m.get(&p, &g) {
            Some(x) if x.v == *v => {}
            other => fail(format!("{}: get({}) = {:?}, reference {}", when, k, other.map(|x| x.v), v)),
        }
    }
}

fn main() {
    if std::env::var("REPLAY_VERBOSE").is_err() {
        std::panic::set_hook(Box::new(|info| {
            if let Some(l) = info.location() {
                eprintln!("PANIC-AT {}:{}", l.file(), l.line());
            }
        }));
    }
    let mut cap: Option<usize> = None;
    let mut facade = String::from("guard");
    let mut prefill: Vec<u8> = vec![];
    let mut keep: Vec<bool> = vec![];
    let mut panic_at: usize = 0;
    let mut dump_at_end = false;
    let mut hold_refs = false;
    let mut ops: Vec<(String, u8, Vec<String>)> = vec![];
    let mut collect: Option<(usize, Vec<u8>)> = None;
    for a in std::env::args().skip(1) {
        let (k, v) = a.split_once('=').unwrap();
        match k {
            "cap" => cap = v.parse().ok(),
            "facade" => facade = v.to_string(),
            "hash" => {
                let mut t = HASHES.lock().unwrap();
                for p in v.split(',').filter(|s| !s.is_empty()) {
                    let (a, b) = p.split_once(':').unwrap();
                    t.push((a.parse().unwrap(), b.parse().unwrap()));
                }
            }
            "prefill" => prefill = v.split(',').filter(|s| !s.is_empty()).map(|s| s.parse().unwrap()).collect(),
            "keep" => keep = v.split(',').filter(|s| !s.is_empty()).map(|s| s == "1").collect(),
            "panic_at" => panic_at = v.parse().unwrap(),
            "dump" => dump_at_end = v == "1",
            "holdrefs" => hold_refs = v == "1",
            "collect" => {
                let (h, ks) = v.split_once(':').unwrap();
                collect = Some((h.parse().unwrap(), ks.split(',').filter(|s| !s.is_empty()).map(|s| s.parse().unwrap()).collect()));
            }
            "ops" => {
                for p in v.split(',').filter(|s| !s.is_empty()) {
                    // op:key, or op:arg+arg+... (extend:1+2+0, sinsert:A+3)
                    let (a, b) = p.split_once(':').unwrap_or((p, "0"));
                    let parts: Vec<String> = b.split('+').map(|x| x.to_string()).collect();
                    let k = parts.iter().find_map(|x| x.parse::<u8>().ok()).unwrap_or(0);
                    ops.push((a.to_string(), k, parts));
                }
            }
            _ => {}
        }
    }
    let mut held: Vec<usize> = vec![];
    {
        let mut model: BTreeMap<u8, (u32, u64)> = BTreeMap::new();
        let mut vnext = 1000u64;
        let m: HashMap<Key, Val, TableHasher> = if let Some((hint, ks)) = collect {
            let mut items = vec![];
            for (i, k) in ks.iter().enumerate() {
                vnext += 1;
                items.push((Key::new(*k, 500 + i as u32), Val::new(vnext)));
                let t = model.get(k).map(|e| e.0).unwrap_or(500 + i as u32);
                model.insert(*k, (t, vnext));
            }
            HintIter { items: items.into_iter(), lower: hint }.collect()
        } else {
            match cap {
                Some(c) => HashMap::with_capacity_and_hasher(c, TableHasher),
                None => HashMap::with_hasher(TableHasher),
            }
        };
        let mut keep_i = 0usize;
        let mut calls = 0usize;
        // a live iterator (iter_new / iter_next:n / iter_drain): weak consistency is judged by key instance (tag) and value
        let iter_guard = m.guard();
        let mut live: Option<flurry::iter::Iter<'_, Key, Val>> = None;
        let mut it_s0: BTreeMap<u32, u64> = BTreeMap::new();
        let mut it_prev: BTreeMap<u32, u64> = BTreeMap::new();
        let mut it_touched: std::collections::BTreeSet<u32> = std::collections::BTreeSet::new();
        let mut it_ever: std::collections::BTreeSet<(u32, u64)> = std::collections::BTreeSet::new();
        let mut it_yield: Vec<(u32, u64)> = vec![];
        let mut it_done = false;
        let mut held_refs: Vec<(usize, u64, &Val)> = vec![];
        {
            let g = m.guard();
            for k in &prefill {
                vnext += 1;
                m.insert(Key::new(*k, 100 + *k as u32), Val::new(vnext), &g);
                model.insert(*k, (100 + *k as u32, vnext));
            }
        }
        let sets: [flurry::HashSet<Key, TableHasher>; 2] = [flurry::HashSet::with_hasher(TableHasher), flurry::HashSet::with_hasher(TableHasher)];
        let mut set_model: [BTreeMap<u8, u32>; 2] = [BTreeMap::new(), BTreeMap::new()];
        for (step, (op, k, parts)) in ops.iter().enumerate() {
            let k = *k;
            let tag = step as u32;
            let when = format!("after step {} ({} {})", step, op, k);
            let use_ref = facade == "ref";
            let r = catch_unwind(AssertUnwindSafe(|| {
                let g = m.guard();
                let mr = m.with_guard(&g);
                match op.as_str() {
                    "insert" => {
                        vnext += 1;
                        let old = if use_ref { mr.insert(Key::new(k, tag), Val::new(vnext)).map(|v| v.v) } else { m.insert(Key::new(k, tag), Val::new(vnext), &g).map(|v| v.v) };
                        let want = model.get(&k).map(|e| e.1);
                        if old != want {
                            fail(format!("{}: insert returned {:?}, reference {:?}", when, old, want));
                        }
                        let t = model.get(&k).map(|e| e.0).unwrap_or(tag);
                        model.insert(k, (t, vnext));
                    }
                    "try_insert" => {
                        vnext += 1;
                        let v = Val::new(vnext);
                        let vid = v.id;
                        let r = if use_ref { mr.try_insert(Key::new(k, tag), v) } else { m.try_insert(Key::new(k, tag), v, &g) };
                        match (r, model.get(&k)) {
                            (Ok(x), None) if x.v == vnext => {
                                model.insert(k, (tag, vnext));
                            }
                            (Err(e), Some(cur)) if e.current.v == cur.1 && e.not_inserted.v == vnext && e.not_inserted.id == vid => {}
                            (r, cur) => fail(format!("{}: try_insert returned {:?}, reference entry {:?}", when, r.map(|x| x.v).map_err(|e| (e.current.v, e.not_inserted.v)), cur)),
                        }
                    }
                    "get" | "contains_key" | "get_key_value" => {
                        let p = Key::new(k, 7777);
                        let got = if use_ref { mr.get_key_value(&p).map(|(a, b)| (a.tag, b.v)) } else { m.get_key_value(&p, &g).map(|(a, b)| (a.tag, b.v)) };
                        if got != model.get(&k).cloned() {
                            fail(format!("{}: lookup returned {:?}, reference {:?}", when, got, model.get(&k)));
                        }
                        if m.contains_key(&p, &g) != model.contains_key(&k) {
                            fail(format!("{}: contains_key disagrees", when));
                        }
                        if hold_refs {
                            // keep the reference under the long-lived guard: it must stay valid whatever happens to the entry later
                            if let Some((_, v)) = m.get_key_value(&p, &iter_guard) {
                                held_refs.push((v.id, v.v, v));
                            }
                        }
                    }
                    "remove" | "remove_entry" => {
                        let p = Key::new(k, 7777);
                        let got = if use_ref { mr.remove_entry(&p).map(|(a, b)| (a.tag, b.v)) } else { m.remove_entry(&p, &g).map(|(a, b)| (a.tag, b.v)) };
                        let want = model.remove(&k);
                        if got != want {
                            fail(format!("{}: remove returned {:?}, reference {:?}", when, got, want));
                        }
                    }
                    "compute_some" | "compute_none" => {
                        let p = Key::new(k, 7777);
                        vnext += 1;
                        let some = op == "compute_some";
                        let nv = vnext;
                        let mut n_calls = 0;
                        let mut seen = None;
                        let f = |kk: &Key, vv: &Val| {
                            calls += 1;
                            if panic_at != 0 && calls == panic_at {
                                INJECTED.store(true, Ordering::SeqCst);
                                panic!("injected");
                            }
                            n_calls += 1;
                            seen = Some((kk.tag, vv.v));
                            if some { Some(Val::new(nv)) } else { None }
                        };
                        let r = if use_ref { mr.compute_if_present(&p, f).map(|v| v.v) } else { m.compute_if_present(&p, f, &g).map(|v| v.v) };
                        let cur = model.get(&k).cloned();
                        if n_calls != cur.is_some() as usize || seen != cur {
                            fail(format!("{}: remapping function called {} times with {:?}, reference entry {:?}", when, n_calls, seen, cur));
                        }
                        match (cur, some) {
                            (Some(c), true) => {
                                if r != Some(nv) { fail(format!("{}: compute returned {:?}", when, r)); }
                                model.insert(k, (c.0, nv));
                            }
                            (Some(_), false) => {
                                if r.is_some() { fail(format!("{}: compute(None) returned {:?}", when, r)); }
                                model.remove(&k);
                            }
                            (None, _) => {
                                if r.is_some() { fail(format!("{}: compute on absent key returned {:?}", when, r)); }
                            }
                        }
                    }
                    "retain" | "retain_force" => {
                        let mut removed: Vec<u8> = vec![];
                        let f = |kk: &Key, _vv: &Val| {
                            calls += 1;
                            if panic_at != 0 && calls == panic_at {
                                for r in &removed { model.remove(r); }
                                INJECTED.store(true, Ordering::SeqCst);
                                panic!("injected");
                            }
                            let kp = keep.get(keep_i).cloned().unwrap_or(true);
                            keep_i += 1;
                            if !kp { removed.push(kk.k); }
                            kp
                        };
                        if op == "retain" {
                            if use_ref { mr.retain(f) } else { m.retain(f, &g) }
                        } else if use_ref { mr.retain_force(f) } else { m.retain_force(f, &g) }
                        for r in &removed { model.remove(r); }
                    }
                    "retain_replace" | "retain_force_replace" | "retain_replace_grow" | "retain_force_replace_grow" => {
                        let mut first: Option<u8> = None;
                        let mut first_val = 0u64;
                        let grow = op.ends_with("_grow");
                        let mut grown: Vec<(u8, u32, u64)> = vec![];
                        let f = |kk: &Key, vv: &Val| {
                            if first.is_none() {
                                first = Some(kk.k);
                                vnext += 1;
                                first_val = vnext;
                                let old = m.insert(Key::new(kk.k, 4242), Val::new(vnext), &g).map(|v| v.v);
                                if old != Some(vv.v) {
                                    fail(format!("{}: re-entrant insert returned {:?}", when, old));
                                }
                                if grow {
                                    // the writer also grows the map: the table is swapped between inspection and removal
                                    for j in 0..6u8 {
                                        vnext += 1;
                                        m.insert(Key::new(100 + j, 4300 + j as u32), Val::new(vnext), &g);
                                        grown.push((100 + j, 4300 + j as u32, vnext));
                                    }
                                }
                                return false;
                            }
                            true
                        };
                        if op.starts_with("retain_replace") {
                            if use_ref { mr.retain(f) } else { m.retain(f, &g) }
                        } else if use_ref { mr.retain_force(f) } else { m.retain_force(f, &g) }
                        for (k2, t2, v2) in grown {
                            model.insert(k2, (t2, v2));
                        }
                        let vnext_first = first_val;
                        if let Some(k0) = first {
                            if op.starts_with("retain_replace") {
                                let t = model.get(&k0).map(|e| e.0).unwrap();
                                model.insert(k0, (t, vnext_first));
                            } else {
                                model.remove(&k0);
                            }
                        }
                    }
                    "clear" => {
                        if use_ref { mr.clear() } else { m.clear(&g) }
                        model.clear();
                    }
                    "reserve" => {
                        m.reserve(k as usize, &g);
                    }
                    "len" | "repin" => {}
                    "iter_new" => {
                        live = Some(m.iter(&iter_guard));
                        it_s0 = model.values().map(|e| (e.0, e.1)).collect();
                        it_prev = it_s0.clone();
                        it_touched.clear();
                        it_ever = it_s0.iter().map(|(a, b)| (*a, *b)).collect();
                        it_yield.clear();
                        it_done = false;
                    }
                    "iter_next" | "iter_drain" => {
                        let n = if op == "iter_next" { k as usize } else { 100000 };
                        let itr = live.as_mut().expect("iter_new first");
                        for _ in 0..n {
                            if it_done {
                                break;
                            }
                            match itr.next() {
                                None => {
                                    it_done = true;
                                }
                                Some((kk, vv)) => {
                                    it_yield.push((kk.tag, vv.v));
                                    if it_yield.len() > 10000 {
                                        fail(format!("{}: the iterator does not terminate", when));
                                    }
                                }
                            }
                        }
                        if op == "iter_drain" {
                            if !it_done {
                                fail(format!("{}: the iterator did not finish", when));
                            }
                            for (tg, v) in &it_yield {
                                if !it_ever.contains(&(*tg, *v)) {
                                    fail(format!("{}: the iterator yielded (key instance {}, value {}), a pair that was never in the map during the iteration", when, tg, v));
                                }
                            }
                            for (tg, v) in &it_s0 {
                                if it_touched.contains(tg) {
                                    continue;
                                }
                                let cnt = it_yield.iter().filter(|(a, _)| a == tg).count();
                                if cnt != 1 {
                                    fail(format!("{}: key instance {} was present and untouched for the whole iteration but was yielded {} times (yielded: {:?})", when, tg, cnt, it_yield));
                                }
                                if !it_yield.contains(&(*tg, *v)) {
                                    fail(format!("{}: key instance {} was yielded with a value other than its (unchanged) value", when, tg));
                                }
                            }
                            live = None;
                        }
                    }
                    "extend" => {
                        let mut items = vec![];
                        for (j, x) in parts.iter().enumerate() {
                            let kk: u8 = x.parse().unwrap();
                            vnext += 1;
                            let t = tag * 16 + 3000 + j as u32;
                            items.push((Key::new(kk, t), Val::new(vnext)));
                            let t0 = model.get(&kk).map(|e| e.0).unwrap_or(t);
                            model.insert(kk, (t0, vnext));
                        }
                        let mut mm = &m;
                        mm.extend(items);
                    }
                    "clone_eq" => {
                        let c = m.clone();
                        if c != m {
                            fail(format!("{}: a clone does not compare equal to the map it was cloned from", when));
                        }
                        {
                            let cg = c.guard();
                            let got: BTreeMap<u8, u64> = c.iter(&cg).map(|(k, v)| (k.k, v.v)).collect();
                            let want: BTreeMap<u8, u64> = model.iter().map(|(k, e)| (*k, e.1)).collect();
                            if got != want {
                                fail(format!("{}: clone() holds {:?}, the original {:?}", when, got, want));
                            }
                            c.insert(Key::new(200, 1), Val::new(1), &cg);
                        }
                        if c == m {
                            fail(format!("{}: maps of different size compare equal", when));
                        }
                    }
                    "index" => {
                        let p = Key::new(k, 9000 + tag);
                        let r = catch_unwind(AssertUnwindSafe(|| mr[&p].v));
                        match (r, model.get(&k)) {
                            (Ok(v), Some(e)) if v == e.1 => {}
                            (Err(_), None) => {}
                            (r, e) => fail(format!("{}: index = {:?}, reference {:?}", when, r.ok(), e)),
                        }
                    }
                    "sinsert" | "sremove" | "stake" | "scontains" | "sget" => {
                        let si = if parts[0] == "A" { 0 } else { 1 };
                        let sg = sets[si].guard();
                        let p = Key::new(k, 7000 + tag);
                        let present = set_model[si].get(&k).cloned();
                        match op.as_str() {
                            "sinsert" => {
                                let r = sets[si].insert(p, &sg);
                                if r != present.is_none() {
                                    fail(format!("{}: HashSet::insert returned {}", when, r));
                                }
                                if present.is_none() {
                                    set_model[si].insert(k, 7000 + tag);
                                }
                            }
                            "scontains" => {
                                if sets[si].contains(&p, &sg) != present.is_some() {
                                    fail(format!("{}: HashSet::contains is wrong", when));
                                }
                            }
                            "sget" => {
                                if sets[si].get(&p, &sg).map(|x| x.tag) != present {
                                    fail(format!("{}: HashSet::get is wrong", when));
                                }
                            }
                            "sremove" => {
                                if sets[si].remove(&p, &sg) != present.is_some() {
                                    fail(format!("{}: HashSet::remove is wrong", when));
                                }
                                set_model[si].remove(&k);
                            }
                            _ => {
                                if sets[si].take(&p, &sg).map(|x| x.tag) != present {
                                    fail(format!("{}: HashSet::take is wrong", when));
                                }
                                set_model[si].remove(&k);
                            }
                        }
                    }
                    "srelations" => {
                        let (ga, gb) = (sets[0].guard(), sets[1].guard());
                        let sub = set_model[0].keys().all(|x| set_model[1].contains_key(x));
                        let sup = set_model[1].keys().all(|x| set_model[0].contains_key(x));
                        let dis = !set_model[0].keys().any(|x| set_model[1].contains_key(x));
                        let got = (sets[0].is_subset(&sets[1], &ga, &gb), sets[0].is_superset(&sets[1], &ga, &gb), sets[0].is_disjoint(&sets[1], &ga, &gb));
                        if got != (sub, sup, dis) {
                            fail(format!("{}: (is_subset, is_superset, is_disjoint) = {:?}, expected {:?}", when, got, (sub, sup, dis)));
                        }
                        for i in 0..2 {
                            if sets[i].len() != set_model[i].len() {
                                fail(format!("{}: set {} len() = {}, {} elements", when, i, sets[i].len(), set_model[i].len()));
                            }
                        }
                    }
                    other => {
                        println!("REPLAY unsupported: unknown op {}", other);
                        std::process::exit(3)
                    }
                }
            }));
            // only the operation whose closure received the injected panic may unwind
            if r.is_err() && !INJECTED.swap(false, Ordering::SeqCst) {
                fail(format!("{}: the operation panicked", when));
            }
            if live.is_some() && !op.starts_with("iter_") {
                let now: BTreeMap<u32, u64> = model.values().map(|e| (e.0, e.1)).collect();
                let tags: std::collections::BTreeSet<u32> = now.keys().chain(it_prev.keys()).cloned().collect();
                for tg in tags {
                    if now.get(&tg) != it_prev.get(&tg) {
                        it_touched.insert(tg);
                    }
                }
                for (a, b) in &now {
                    it_ever.insert((*a, *b));
                }
                it_prev = now;
            }
            shape_check(&m, &model, &when);
        }
        shape_check(&m, &model, "at the end");
        if dump_at_end {
            // translator validation: the structure the real code built, to be compared with the interpreter's heap
            println!("DUMP len={} size_ctl={} count={}", flurry::verif_inspect::table_len(&m), flurry::verif_inspect::size_ctl(&m), flurry::verif_inspect::count(&m));
            for l in flurry::verif_inspect::dump(&m) {
                println!("DUMP {}", l);
            }
        }
        // references handed out under the still-live guard: not dropped, and (under Miri) still readable
        for (id, v, r) in &held_refs {
            let dropped = DROPS.lock().unwrap()[*id];
            if dropped != 0 {
                println!("REPLAY mismatch: a value (instance {}) handed out by a lookup under a still-live guard has been dropped", id);
                std::process::exit(0);
            }
            if r.v != *v {
                fail(format!("a value handed out under a still-live guard changed under the reference ({} -> {})", v, r.v));
            }
        }
        drop(held_refs);
        drop(live);
        drop(iter_guard);
        // a second thread can still write every key (no lock left behind)
        let (tx, rx) = std::sync::mpsc::channel();
        std::thread::scope(|s| {
            s.spawn(|| {
                let g = m.guard();
                for k in 0..16u8 {
                    let p = Key::new(k, 1);
                    let _ = m.compute_if_present(&p, |_, v| Some(Val::new(v.v)), &g);
                }
                tx.send(()).unwrap();
            });
            if rx.recv_timeout(std::time::Duration::from_secs(10)).is_err() {
                fail("a later writer blocked for 10 s: a bin lock was left held".to_string());
            }
        });
        let _ = &mut held;
    }
    // everything created was dropped exactly once
    let d = DROPS.lock().unwrap();
    let never: Vec<usize> = (1..d.len()).filter(|i| d[*i] == 0 && !held.contains(i)).collect();
    let twice: Vec<usize> = (1..d.len()).filter(|i| d[*i] > 1).collect();
    if !never.is_empty() || !twice.is_empty() {
        println!("REPLAY mismatch: drop accounting: {} instances never dropped, {} dropped more than once (of {})", never.len(), twice.len(), d.len() - 1);
        std::process::exit(0);
    }
    println!("REPLAY ok");
}
