#!/usr/bin/env python3
"""Translator validation (Serval-style): random concrete scripts are pushed through BOTH the concrete-heap interpreter of
flurry's MIR (mode B) and the real crate (native/seq_replay.rs); every return value is compared with the reference inside
each runner, and the final heap structure - table length, size_ctl, count, per bin the list order or the complete red-black
tree (parent/left/right/prev/next/colour per node) - must be identical between interpreter and native run.
usage: validate_translator.py [n_scripts=40] [seed=VERIF_SEED]"""
import sys, os, random, re
sys.path.insert(0, os.path.dirname(os.path.dirname(os.path.abspath(__file__))))
from fv import common as C, native, mirpath as P
from fv.seqcheck import Scenario, Runner, load_cell, entry_of
from fv.props._seq import replay_args
from fv.seqcheck import Finding


def py_dump(it, d):
    out = []
    cells = d.cells()
    bins = d.bins() or []
    out.append('len=%d size_ctl=%d count=%d' % (len(bins), int(cells['size_ctl'].v), int(cells['count'].v)))
    for i, b in enumerate(bins):
        if b is None:
            out.append('%d E' % i)
        elif b.variant == 'Moved':
            out.append('%d M' % i)
        elif b.variant == 'Node':
            s = '%d L' % i
            cur = b
            while cur is not None:
                nd = cur.fields[0]
                s += ' %d:%d' % (int(nd.fields[0].v), int(nd.fields[1].val))
                cur = entry_of(load_cell(nd.fields[3]))
            out.append(s)
        else:
            tb = b.fields[0]
            lst = []
            cur = load_cell(tb.fields[1])
            while cur.base is not None:
                lst.append(cur)
                cur = load_cell(entry_of(cur).fields[0].fields[0].fields[3])

            def ident(p):
                if p.base is None:
                    return 0
                for k, q in enumerate(lst):
                    if q == p:
                        return k + 1
                return -1
            s = '%d T root=%d first=%d lock_state=%d |' % (i, ident(load_cell(tb.fields[0])), ident(load_cell(tb.fields[1])), int(load_cell(tb.fields[4]).v))
            for p in lst:
                tn = entry_of(p).fields[0]
                nd = tn.fields[0]
                s += ' [%d %d %d %d %d %d %d %d %d]' % (ident(p), int(nd.fields[0].v), int(nd.fields[1].val), ident(load_cell(tn.fields[1])), ident(load_cell(tn.fields[2])),
                                                          ident(load_cell(tn.fields[3])), ident(load_cell(tn.fields[4])), ident(load_cell(nd.fields[3])), 1 if bool(load_cell(tn.fields[5]).v) else 0)
            out.append(s)
    return out


def random_script(rng):
    shape = rng.choice(['identity', 'const', 'samebin', 'split', 'samebin', 'const'])
    if shape in ('samebin', 'split') or (shape == 'const' and rng.random() < 0.5):
        cap, uni = 40, 16
        prefill = rng.sample(range(uni), rng.randint(6, 12))
    else:
        cap, uni = rng.choice([None, 1, 2]), 8
        prefill = rng.sample(range(uni), rng.randint(0, 3))
    ops = []
    for _ in range(rng.randint(4, 10)):
        k = ('c', rng.randrange(uni))
        kind = rng.choice(['insert', 'insert', 'insert', 'remove', 'remove', 'try_insert', 'get', 'compute_some', 'compute_none', 'remove_entry', 'retain', 'clear', 'reserve', 'contains_key'])
        if kind in ('clear',) and rng.random() < 0.7:
            kind = 'insert'
        if kind == 'retain':
            ops.append(('retain',))
        elif kind == 'clear':
            ops.append(('clear',))
        elif kind == 'reserve':
            ops.append(('reserve', ('c', rng.choice([3, 8, 20, 100]))))
        else:
            ops.append((kind, k))
    return Scenario('tv', hasher=shape, capacity=cap, facade=rng.choice(['guard', 'ref']), prefill=prefill, ops=ops, universe=uni, retain_sym=0, retain_rest=rng.random() < 0.5)


def main():
    n = int(sys.argv[1]) if len(sys.argv) > 1 else 40
    seed = int(sys.argv[2]) if len(sys.argv) > 2 else C.SEED
    rng = random.Random(1000 + seed)
    prog = P.Program(C.mir_functions())
    src = open(os.path.join(C.VERIF, 'native', 'seq_replay.rs')).read()
    bad = 0
    trees = 0
    both = 0
    for i in range(n):
        sc = random_script(rng)
        got = {}
        r = Runner(prog, sc)
        r.end_hook = lambda it, d: got.setdefault('dump', py_dump(it, d))
        r.run()
        args = replay_args(sc, Finding('tv', 'none', '', {}, [])) + ['dump=1']
        try:
            p = native.run_program('seqreplay', src, args, release=False, timeout=120)
            out = p.stdout or ''
        except native.subprocess.TimeoutExpired:
            out = 'REPLAY mismatch: the native run did not return'
        lines = [l[5:] for l in out.split('\n') if l.startswith('DUMP ')]
        last = out.strip().split('\n')[-1] if out.strip() else 'no output'
        native_ok = 'REPLAY ok' in last
        if r.findings or not native_ok:
            if bool(r.findings) != (not native_ok):
                # the two executions disagree about whether this script behaves like the reference: a translator fault
                print('script %d: interpreter %s, native run: %s\n  args: %s' % (i, ('reports ' + r.findings[0].what[:200]) if r.findings else 'agrees with the reference', last[:200], ' '.join(args)))
                bad += 1
            else:
                both += 1       # both see the same script misbehave (a defect of the tree under test, reported by the campaign itself)
            continue
        if lines != got.get('dump'):
            bad += 1
            print('script %d: STRUCTURE DIFFERS\n  args: %s' % (i, ' '.join(args)))
            for a, b in zip(lines, got.get('dump') or []):
                if a != b:
                    print('   native: %s\n   interp: %s' % (a, b))
                    break
        else:
            trees += sum(1 for l in lines if ' T ' in l)
    print('translator validation: %d scripts, %d disagreements, %d tree bins compared node by node%s' % (n, bad, trees, (', %d scripts misbehave identically in both' % both) if both else ''))
    return 1 if bad else 0


if __name__ == '__main__':
    sys.exit(main())
