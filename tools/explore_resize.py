#!/usr/bin/env python3
"""Long-running interleaving exploration of cooperative resizing (C10 part 2 / finding F6 hunt).
usage: explore_resize.py <preemptions> <threads> <bins:32|64> [noloads]"""
import sys, os, time
sys.path.insert(0, os.path.dirname(os.path.dirname(os.path.abspath(__file__))))
from fv import common as C, mirpath as P
from fv.concheck import ConcScenario, ConcRunner

pre = int(sys.argv[1]); nthreads = int(sys.argv[2]); bins = int(sys.argv[3]); loads = len(sys.argv) < 5
cap = {16: 10, 32: 20, 64: 40}[bins]
thr = bins - bins // 4
prefill = list(range(thr - 1))
threads = [[('insert', thr - 1 + i)] for i in range(nthreads)]
prog = P.Program(C.mir_functions())
sc = ConcScenario('resize%d/%dthreads/p%d' % (bins, nthreads, pre), hasher='identity', capacity=cap, prefill=prefill, threads=threads, preemptions=pre, ncpu=4, yield_loads=loads)
os.environ.setdefault('VERIF_SCENARIO_BUDGET_S', '30000')
t0 = time.time()
r = ConcRunner(prog, sc, max_paths=10 ** 7).run()
print('schedules', r.paths, 'points', r.sched_points, 'time', round(time.time() - t0), 'findings', len(r.findings))
for f in r.findings[:3]:
    print('----', f.kind, f.what[:1500])
    print('\n'.join(f.trace[-80:]))
