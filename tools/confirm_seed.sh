#!/bin/bash
# confirm_seed.sh <mutation dir with patch.diff + demo.rs|demo.diff> <seed id> [extra cargo test args for the demo]
# Confirms in a scratch worktree (removed afterwards): patch applies, builds (also with serde,rayon), suite passes,
# demo fails with the patch and passes without it. Writes <dir>/confirm.log and prints a one-line summary.
set -u
SRC=$1; ID=$2; shift 2
W=/tmp/confirm-$ID
LOG=$SRC/confirm.log
rm -rf $W; git -C /repo worktree prune
git -C /repo worktree add -q --detach $W HEAD || exit 3
export CARGO_TARGET_DIR=$W/target CARGO_NET_OFFLINE=true
cd $W
{
echo "== confirm $ID at $(git rev-parse --short HEAD) $(date -u +%FT%TZ)"
demo_install() {
  if [ -f $SRC/demo.rs ]; then cp $SRC/demo.rs tests/zz_demo_$ID.rs; DEMOARGS="--test zz_demo_$ID"; fi
  if [ -f $SRC/demo.diff ]; then git apply $SRC/demo.diff || echo "DEMO-DIFF-FAILED"; DEMOARGS="--lib"; fi
}
FEAT=""
grep -qi "features serde\|feature = \"serde\"\|serde_json" $SRC/demo.rs $SRC/notes.md 2>/dev/null && FEAT="--features serde"
grep -qi "features rayon\|par_extend\|rayon::" $SRC/demo.rs 2>/dev/null && FEAT="--features rayon"
grep -qi "serde,rayon" $SRC/notes.md 2>/dev/null && [ -n "$FEAT" ] && FEAT="--features serde,rayon"
# 1. clean tree + demo => must pass
demo_install
echo "-- demo on clean tree ($DEMOARGS $FEAT $*)"
timeout 900 cargo test --offline $FEAT $DEMOARGS "$@" 2>&1 | tail -15; CLEAN=${PIPESTATUS[0]}
echo "clean_demo_rc=$CLEAN"
git checkout -q -- . ; git clean -fdq tests src
# 2. patched tree: build, features build, suite
git apply $SRC/patch.diff || { echo "PATCH-DOES-NOT-APPLY"; }
cargo build --offline 2>&1 | tail -2; B1=${PIPESTATUS[0]}
cargo build --offline --features serde,rayon 2>&1 | tail -2; B2=${PIPESTATUS[0]}
echo "build_rc=$B1 build_features_rc=$B2"
timeout 1200 cargo nextest run --workspace --no-fail-fast --offline --test-threads 8 2>&1 | tail -4; SUITE=${PIPESTATUS[0]}
echo "suite_rc=$SUITE"
# 3. patched tree + demo => must fail
demo_install
echo "-- demo on patched tree"
timeout 900 cargo test --offline $FEAT $DEMOARGS "$@" 2>&1 | tail -25; MUT=${PIPESTATUS[0]}
echo "mutant_demo_rc=$MUT"
echo "SUMMARY id=$ID clean_demo_rc=$CLEAN build_rc=$B1 build_features_rc=$B2 suite_rc=$SUITE mutant_demo_rc=$MUT"
} > $LOG 2>&1
cd /; git -C /repo worktree remove --force $W
tail -1 $LOG
