#!/usr/bin/env python3
"""Regenerates MANIFEST.json from the table below (kept in one place so it stays valid while checks are added)."""
import json, os
V = os.path.dirname(os.path.dirname(os.path.abspath(__file__)))

CHECKS = {
    'C09': dict(
        level='model_checking', design='DESIGN.md §4 C09',
        technique='SMT reachability query (z3) over MIR control-flow graph x guard-checked monitor, per function and guard; native replay with a foreign collector',
        text='For every guard-taking method discovered in the MIR of the current tree (HashMap, HashSet, both reference wrappers, closures capturing a guard) z3 decides whether any CFG path reaches a use of the guard or a shared write before check_guard; unsat is complete for the finite CFG (no path-length bound), callee summaries are a least fixed point over the crate call graph. A sat answer is replayed natively with a foreign collector before it is reported.',
        note='Trusts rustc\'s MIR dump, the effect classification of callees by name (reclaim::Atomic::*, Table::*, retire_shared), and check_guard\'s body (checked to contain the ptr_eq assertion). Replay templates exist for the current public methods; an unchecked path in a method without template is reported as inconclusive (exit 2).'),
    'C14': dict(
        level='model_checking', design='DESIGN.md §4 C14',
        technique='bit-precise symbolic execution of the MIR of presize/with_capacity/try_presize/init_table/reserve/add_count/treeify_bin/transfer into z3 bit-vector queries (cvc5 cross-check); native replay through an injected inspector',
        text='The operand passed to Table::new and every value stored to size_ctl/count are extracted as 64-bit bit-vector terms from the MIR of the current tree; z3 (cross-checked by cvc5) decides the capacity contract for ALL 2^64 requested capacities, all counts/thresholds and every power-of-two table length: bins = least power of two >= 1.5c+1 capped at 2^30, c <= 0.75*bins, with_capacity(0) allocates nothing, growth is exactly 2x and only when an insert brings count to the threshold, never on a removal, never beyond 2^30, overfull bins in tables < 64 only reserve 2x. Counterexamples are replayed natively before being reported.',
        note='Sequential semantics per function (CAS succeeds iff expected value present); callees that are not inlined are havoc (may rewrite every cell of the map); entry-state invariants are stated in the evidence. Retry loops unrolled twice. "Well-distributed" = collision-free keys in the native replay.'),
    'C18': dict(
        level='fault_enumeration', design='DESIGN.md §4 C18',
        technique='SMT reachability (z3) over MIR unwind edges: CFG x drop-flags x lock/write monitor per closure call site; native panic-injection replay',
        text='Fault enumeration over every user-closure call site found in the MIR of the current tree: z3 decides, complete for the finite CFG x drop-flag x monitor product, whether an unwind path from the closure reaches resume with a bin lock held (U1), writes/retires shared state while unwinding (U2), follows a shared write made earlier in the same critical section (U3) or drops a poisoning std MutexGuard (U4). A sat answer is replayed natively with a panic at every i-th invocation, comparing the map with a model and writing to the same bin from a second thread under a watchdog.',
        note='Only panics of the closures named by the property are fault points. Effect classes are assigned by callee name. The semantic half injects the panic in the concrete-heap interpreter (unwinding through the MIR cleanup blocks) at every i-th invocation and checks contents, count, locks and later operations against the reference.'),
    'C12': dict(
        level='model_checking', design='DESIGN.md §4 C12',
        technique='SMT reachability (z3) over MIR CFGs with a least fixed point over the crate call graph (no path from a read entry point to a blocking primitive) + cycle-without-progress queries on the read loops in isolation; native suspended-writer replay',
        text='For every read entry point found in the MIR (lookups, iteration, len, equality, set relations, wrapper methods) z3 decides that no CFG path, through any crate-local callee or closure, reaches Mutex::lock, lock_root/contended_lock, park, yield_now or a helping/initialising function containing them; and that, with compare-exchange unable to fail (reader in isolation, writer suspended), every cycle of TreeBin::find, Table::find, find_tree_node and NodeIter::next passes a pointer advance. Complete for the finite CFGs. Counterexamples are replayed with a writer parked inside a bin critical section and with a tree bin whose root lock is held.',
        note='Blocking primitives recognised by name; generic user code (Ord/Borrow/Hash impls) and seize internals are trusted to be non-blocking. Does not decide lock-freedom of reads while writers keep changing the structure (a schedule property).'),
    'C19': dict(
        level='model_checking', design='DESIGN.md §4 C19',
        technique='SMT reachability (z3) over the MIR (--features serde,rayon) of the serde visitors/serializers (no own panic site reachable; serialisation = collect_map/collect_seq over own iterator) and of rayon\'s per-item closure (exactly one insert of the item); native replay over all small inputs',
        text='Serde: z3 decides on the CFG of visit_map/visit_seq/deserialize that no panic site of these functions is reachable on any path (errors leave through ?), and that every returning path of the serializers is one collect_map/collect_seq over the pinned wrapper\'s own iterator. Rayon: every parallel entry point funnels into one per-item closure, for which z3 decides that each returning path performs exactly one HashMap::insert of the item\'s key and value. Counterexamples are replayed natively over all key sequences with repetitions up to length 4 (text and self-describing deserializers) and rayon pools of 1/2/4 threads.',
        note='NOT covered (stated not-applicable part): how rayon\'s pool distributes and interleaves items - real parallelism is outside solver-based checking here; the concurrent correctness of insert itself is C01. Panics inside MapAccess/SeqAccess implementations or inside HashMap::insert are attributed to those callees.'),
    'C16': dict(
        level='model_checking', design='DESIGN.md §4 C16',
        technique='region-constraint system per public signature from rustdoc JSON, decided by z3 (is "use result after guard drop/refresh, map drop, wrapper drop" satisfiable?), with rustc borrow-checking generated programs as replay oracle in both directions',
        text='For every public method of HashMap/HashSet/HashMapRef/HashSetRef/Iter/Keys/Values whose result mentions a lifetime (discovered from rustdoc JSON of the current tree) a finite liveness-constraint system is generated per invalidation event and decided by z3; every generated program (call; event; use) is also compiled by rustc against the real crate: solver-sat + accepted = violation, any solver/rustc disagreement = inconclusive. A positive program with non-static keys, values and lookup keys through every API must compile.',
        note='Finite system per signature, complete for the 4-point program shape; covariance of all lifetime-carrying types assumed; rustc is trusted as oracle. Says nothing about unsafe code that could make a signature lie (C03).'),
    'C17': dict(
        level='model_checking', design='DESIGN.md §4 C17',
        technique='Horn-clause query (z3) over impl/method where-predicates from rustdoc JSON for every inserting entry point; rustc compiling probe programs with Send+!Sync, Sync+!Send and !Send+!Sync key/value types as replay oracle',
        text='Every inserting entry point (discovered from rustdoc JSON with features serde,rayon: by-value K/V/T parameters, value-producing closures, Extend/FromIterator/Clone/Deserialize/FromParallelIterator/ParallelExtend impls) must have bounds that entail K,V: Send+Sync (z3 query per entry point); read-only entry points must not. 150+ probe programs instantiate each entry point with three kinds of non-thread-safe types as key and as value and must be rejected by rustc; controls with thread-safe types and a read-only program over !Send+!Sync types must compile.',
        note='rustc\'s trait solver is the oracle; entry points without a probe template are listed in the evidence and are inconclusive if the solver finds their bounds insufficient.'),
    'C02': dict(
        level='model_checking', design='DESIGN.md §4 C02',
        technique="mode B: KLEE-style concrete-heap symbolic interpreter over the MIR of the current tree (own engine, fv/modeb.py), symbolic keys/hashes, all feasible paths enumerated with z3 deciding every branch and every comparison with the reference; native (and Miri) replay of the solver's model",
        text="Every public single-threaded operation (insert, try_insert, get, get_key_value, contains_key, remove, remove_entry, compute_if_present Some/None, retain, retain_force, clear, len, reserve, iteration, collect) is executed from flurry's own MIR on a concrete heap with SYMBOLIC keys and a symbolic or class-chosen hash function; all feasible paths of each script are explored (z3 decides each branch; the disjunction of the path conditions is checked to be valid) and every return value, the identity of the stored key instance, len() and the final contents are compared with a reference association list over the same symbolic terms. Scripts: all pairs of 13 operation kinds after two inserts, 2-bin tables (resizes), constant/identity/arbitrary hashers, both facades, 10-op scripts across two resizes, 64-bin tables with a 10-node tree bin. A counterexample model is replayed natively against std's map.",
        note='Bounded: scripts of 4-10 operations, universe of 2-4 keys (12 for tree bins), listed hash classes, capacities 0-3 and 40. Debug/Index formatting, clone/eq and the set relations are not scripted; the owned-guard path of pin() is replaced by with_guard (same MIR below). std/seize/parking_lot are modelled (list in the evidence).'),
    'C03': dict(
        level='model_checking', design='DESIGN.md §4 C03',
        technique="mode B: KLEE-style concrete-heap symbolic interpreter over the MIR of the current tree (own engine, fv/modeb.py), symbolic keys/hashes, all feasible paths enumerated with z3 deciding every branch and every comparison with the reference; native (and Miri) replay of the solver's model",
        text='The same interpreter runs with a reclamation ledger: every allocation, retirement and reclamation is tracked; reading or writing a reclaimed object, retiring twice, freeing twice, retiring a freed object, or dropping a value that was handed out under a still-live guard is a violation on that path. Includes bulk construction (FromIterator with every lower size hint 0..n-1, spread and colliding keys, crossing resizes), scripts with guard refreshes so that reclamation really happens mid-script, tree-bin conversions and resizes of shrunk tree bins. A finding is replayed natively and under Miri.',
        note='Sequential only: reader/retirer interleavings, collector batch sizes and seize itself are NOT covered (seize under real threads is the trusted base). Bounds as C02 (core alphabet).'),
    'C04': dict(
        level='model_checking', design='DESIGN.md §4 C04',
        technique="mode B: KLEE-style concrete-heap symbolic interpreter over the MIR of the current tree (own engine, fv/modeb.py), symbolic keys/hashes, all feasible paths enumerated with z3 deciding every branch and every comparison with the reference; native (and Miri) replay of the solver's model",
        text='Drop ledger in the interpreter: every key/value instance (including the clones transfer/treeify/untreeify make) must be dropped exactly once by the time the guard, the map and everything retired are gone; nothing may be dropped while handed out under a live guard; a refused try_insert value must come back intact and undropped; no allocation may remain. Crate Drop impls (HashMap, Table, TreeBin) and the custom tree-bin reclaimer run from MIR. Counterexamples are replayed natively with instance-counting key/value types.',
        note='Sequential only; the CAS-retry path of put (needs a concurrent CAS failure) is not reached. Bounds as C02 (core alphabet) plus shrunk-tree-bin resize scenarios.'),
    'C05': dict(
        level='model_checking', design='DESIGN.md §4 C05',
        technique="mode B: KLEE-style concrete-heap symbolic interpreter over the MIR of the current tree (own engine, fv/modeb.py), symbolic keys/hashes, all feasible paths enumerated with z3 deciding every branch and every comparison with the reference; native (and Miri) replay of the solver's model",
        text='Quiescence oracle evaluated on the concrete heap at the end of every path (thorough: after every step): power-of-two table, next_table null, size_ctl = 0.75*len, no forwarding marker, every node in bin hash&(len-1) and stored hash = hash(key) (solver queries over the symbolic hash), no key twice (solver), count = len() = number of entries, is_empty agrees, iter/keys/values yield exactly the reference, get finds every entry. Native replay through the injected inspector.',
        note='Quiescent points after sequential histories only (any number of resizes, tree conversions, clears within the script bounds); concurrent histories are outside.'),
    'C06': dict(
        level='model_checking', design='DESIGN.md §4 C06',
        technique="mode B: KLEE-style concrete-heap symbolic interpreter over the MIR of the current tree (own engine, fv/modeb.py), symbolic keys/hashes, all feasible paths enumerated with z3 deciding every branch and every comparison with the reference; native (and Miri) replay of the solver's model",
        text='The real tree code (TreeBin::new, find_or_put_tree_val, remove_tree_node, balance_insertion/deletion, rotations, untreeify, resize splits) is executed from MIR on tree bins of 9-11 (thorough 9-14) colliding keys, equal hashes and same-bin/different-hash, for every pair (thorough: triple) of insert/remove with symbolic keys over stored and absent keys; after every step the red-black, BST-order (solver), parent/child, prev/next and tree-vs-list invariants are checked and the key comparisons per lookup are counted against 4*ceil(log2(n+1))+2. Native replay re-checks the invariants through the inspector dump.',
        note='History-based (all shapes reachable from treeification + bounded op sequences), not an inductive step from an arbitrary valid tree; n <= 14. The tree-bin reader/writer lock state after CONTENDED writes is not reachable sequentially (see C11).'),
    'C13': dict(
        level='other', design='DESIGN.md §4 C13',
        technique="mode B: KLEE-style concrete-heap symbolic interpreter over the MIR of the current tree (own engine, fv/modeb.py), symbolic keys/hashes, all feasible paths enumerated with z3 deciding every branch and every comparison with the reference; native (and Miri) replay of the solver's model",
        text="Sequential core of retain/retain_force in the interpreter with symbolic predicate answers, list and tree bins, both facades, plus the only single-thread route into the inspection-to-removal window: the predicate itself replaces the inspected entry's value through the real insert and then rejects it - retain must keep the replaced entry, retain_force must remove it. Every entry must be visited once with its own key instance and current value. Native replay.",
        note='Level other: interleavings with other threads are not explored; the window is entered re-entrantly from the predicate. Bounds: 3 entries in 2-bin tables, 10 in a tree bin.'),
    'C07': dict(
        level='model_checking', design='DESIGN.md §4 C07',
        technique="mode B: KLEE-style concrete-heap symbolic interpreter over the MIR of the current tree (own engine, fv/modeb.py), symbolic keys/hashes, all feasible paths enumerated with z3 deciding every branch and every comparison with the reference; native replay of the solver's model; hand-built forwarding states with symbolic masks",
        text='One thread: (a) the real iterator is created, advanced, the map is grown by 1-3 doublings / entries removed / a tree bin untreeified or split under the standing iterator, then drained - every key present and untouched throughout must be yielded exactly once, nothing may be yielded that was never in the map; (b) the traverser (NodeIter::next/push_state/recover_state from MIR) runs over three hand-built table generations (base length 2 and 4) for EVERY subset of already-forwarded bins the transfer discipline allows, i.e. the states concurrent helpers can leave between two next() calls, and must yield each key exactly once and terminate. Findings are replayed natively (public API, or an in-crate unit test for hand-built states).',
        note='The memory-level race of next() with concurrent writers is outside (C15/seize). Bounds: base lengths 2 and 4, 3 generations, <= 2 nodes per bin, keys universe 3.'),
    'C10': dict(
        level='model_checking', design='DESIGN.md §4 C10',
        technique='bit-precise symbolic execution of the MIR of resize_stamp/add_count/help_transfer/try_presize/transfer into z3 (all 31 legal lengths, cvc5 cross-check) + mode-B end-to-end resizes with symbolic keys; native replay',
        text='Part 1: for every legal table length the stamp is negative after the shift, survives +2..+MAX_RESIZERS, differs from every other length in the high half; a resize is initiated with rs+2, helpers register with +1 and never once the finisher is chosen (rs+1) or the limit is reached; a leaving thread decrements by one and exactly the one that saw rs+2 finishes; strides are >= 16; the finisher publishes 0.75 of the new length for every old length. Part 3: in the concrete-heap interpreter tables of 2..64 bins grow by inserts/reserve with symbolic keys: exact doubling at exactly the threshold, placement, threshold, nothing left behind, drop(map) passes. ',
        note='NOT decided: claiming/joining/leaving under real interleavings of several helpers (part 2 of the design was not built): overlap of generations under contention is outside this check (see DESIGN.md §7 finding F6 for what the mutation agents observed on the unchanged tree).'),
    'C01': dict(
        level='model_checking', design='DESIGN.md §4 C01',
        technique="bounded interleaving exploration on the real MIR: several logical threads run flurry's own MIR in the concrete-heap interpreter (fv/conc.py), every atomic access / lock / park is a scheduling point, one schedule variable per step decided through the z3-backed decision mechanism, context-bounded (<= 2-3 preemptions), depth-first by re-execution; linearizability + ledger + quiescence oracles",
        text='2 (thorough: 3) logical threads execute real get/insert/try_insert/remove/compute_if_present/clear/reserve calls on a shared map; all schedules within the preemption bound are explored. Every history must have a sequential order respecting real time that reproduces each result and the final contents; no reclaimed memory may be touched, no thread may be left unable to move, and the structure must be well formed once all threads have left. Shapes: empty-bin CAS publication, list bins, 2->4-bin resizes under way, tree bins, a tree bin split by a 64->128 resize, a tree bin being untreeified.',
        note='Bounded: 2-3 threads, 1-2 operations each, <= 2 (3) preemptions, concrete keys, sequentially consistent interleavings (memory-order effects: C15). Schedule-dependent witnesses are replayed deterministically in the interpreter, not natively (forcing a native schedule would need instrumentation of every atomic access) - stated exception, DESIGN.md §3.5.'),
    'C08': dict(
        level='model_checking', design='DESIGN.md §4 C08',
        technique="bounded interleaving exploration on the real MIR: several logical threads run flurry's own MIR in the concrete-heap interpreter (fv/conc.py), every atomic access / lock / park is a scheduling point, one schedule variable per step decided through the z3-backed decision mechanism, context-bounded (<= 2-3 preemptions), depth-first by re-execution; linearizability + ledger + quiescence oracles",
        text='compute_if_present races with compute_if_present, a replacing insert, remove and a resize on the same key in list bins and tree bins (incl. a tree bin split by a resize); all schedules within the preemption bound. The remapping function must run at most once per call and the history - in which each compute records the value instance it was given and the one it produced - must be linearizable (a lost update or a result replacing a value the function never saw is a non-linearizable history).',
        note='Bounds and replay exception as C01.'),
    'C11': dict(
        level='model_checking', design='DESIGN.md §4 C11',
        technique="SMT reachability over MIR CFGs (one bin lock at a time, call graph to a fixed point) + bounded interleaving exploration on the real MIR: several logical threads run flurry's own MIR in the concrete-heap interpreter (fv/conc.py), every atomic access / lock / park is a scheduling point, one schedule variable per step decided through the z3-backed decision mechanism, context-bounded (<= 2-3 preemptions), depth-first by re-execution; linearizability + ledger + quiescence oracles",
        text="(1) z3 decides on every locking function's CFG that no second bin lock and no blocking helper is reachable, directly or through any callee/closure, while a bin lock is held (no cyclic waiting). (2) Interleavings on the real MIR: tree-bin reader/writer protocol (lock_root/contended_lock/park/unpark vs TreeBin::find readers), table-initialisation races, insert/remove/get/clear racing with a resize: in every schedule within the bound every thread finishes (a state where no thread can move = deadlock/lost wakeup; > 1500 scheduling points = livelock), lock words return to 0, histories are linearizable.",
        note='Fairness is modelled as: a spin hands the processor to another enabled thread. Bounds: 2-3 threads, <= 2 (3) preemptions; in the 3-thread quick scenarios loads are not scheduling points. Livelock among CAS retry loops under adversarial fair schedules beyond the bound is outside.'),
    'C15': dict(
        level='model_checking', design='DESIGN.md §9.3 / §4 C15',
        technique='axiomatic memory-model query (RC11 fragment: po, rf, release/acquire sw, hb by justified transitive closure) per publication site, decided by z3 (cvc5 cross-check); store orderings, receivers, privacy and root-lock regions extracted from the MIR of the current tree',
        text='Every store/swap/compare_exchange on a pointer cell (incl. the Table::store_bin/cas_bin wrappers) is read from the MIR with the ordering it passes; for each site z3 decides whether an execution exists in which a guarded (SeqCst) reader obtains the stored pointer without the initialisation of the pointee happening-before its access. Stores weaker than Release are admitted only where a further query establishes that the receiver is still private to the storing function and published later by a release store, or that the store executes inside the tree bin root-lock region (lock_root..unlock_root, a path obligation), or that the cell is owned (teardown).',
        note='Bounded axiomatic model: <= 6 events and 2 threads per graph, one graph per publication site (a three-thread chain writer -> copier -> reader is two sites); no fences / release sequences; seize\'s protect is taken to load SeqCst as its source says. Privacy is a conservative intraprocedural taint. A weak-memory witness cannot be exhibited on x86: the report is the event graph with file:line (stated exception, DESIGN.md §9.2).'),
}

NOT_APPLICABLE = {
}

UNDER_CONSTRUCTION = 'check not built yet in this revision of /verif (see DESIGN.md §4 for the planned solver-based check)'

def main():
    props = [json.loads(l)['id'] for l in open(os.path.join(V, 'properties.jsonl'))]
    checks = []
    for pid in props:
        if pid not in CHECKS:
            continue
        c = CHECKS[pid]
        checks.append({
            'property_id': pid,
            'quick_cmd': './check %s --tier quick' % pid,
            'thorough_cmd': './check %s --tier thorough' % pid,
            'evidence_file': 'evidence/%s.json' % pid,
            'replay_cmd_template': './check %s --replay {path}' % pid,
            'engine': c.get('engine', 'fv'),
            'level_claimed': {'category': c['level'], 'text': c['text'], 'design_ref': c['design']},
            'level_note': c['note'],
            'technique': c['technique'],
        })
    na = []
    for pid in props:
        if pid in CHECKS:
            continue
        na.append({'property_id': pid, 'reason': NOT_APPLICABLE.get(pid, UNDER_CONSTRUCTION)})
    man = {
        'version': 1,
        'setup_cmd': './setup.sh',
        'hooks': {
            'guard': 'flurry_verif (cfg; not used by any commit in /repo: the read-only inspector is injected into scratch copies of the working tree, see DESIGN.md §3.6)',
            'enable': 'none needed: checks copy /repo\'s working tree to a scratch directory and append native/inspect.rs to src/map.rs there',
            'baseline_off_cmd': 'cd /repo && cargo test --workspace --no-fail-fast --offline',
            'source_commits': [],
            'add_only': True,
        },
        'engines': [
            {'name': 'fv', 'path': 'fv/', 'serves_properties': sorted(CHECKS), 'kind_free_text': 'own MIR front end (rustc -Zunpretty=mir of the current tree) + z3/cvc5 queries: CFG path obligations (mirpath), bit-precise value obligations and bounded interleavings (mirsym), concrete-heap symbolic interpreter (modeb), RC11 axiomatic queries (c11ax), signature constraints from rustdoc JSON (sigsmt); Kani/CBMC harnesses over the compiled crate as cross-check'},
        ],
        'checks': checks,
        'not_applicable': na,
        'notes': 'Technique family: solver-based checking of the real code. Every verdict is a solver answer on an encoding regenerated from /repo\'s working tree on that run; exit 2 = inconclusive (never a pass, never a violation). Fixed defects are recorded in known-findings.txt.',
    }
    with open(os.path.join(V, 'MANIFEST.json'), 'w') as fh:
        json.dump(man, fh, indent=1)
    print('MANIFEST.json: %d checks, %d not claimed' % (len(checks), len(na)))

if __name__ == '__main__':
    main()
