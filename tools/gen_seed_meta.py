#!/usr/bin/env python3
"""writes seeded/<id>/meta.json from the table below (what each kept change breaks, what it needs, what was run)"""
import json, os
V = os.path.dirname(os.path.dirname(os.path.abspath(__file__)))
CONFIRM = "tools/confirm_seed.sh (scratch worktree of /repo HEAD): patch applies; cargo build (also --features serde,rayon) ok; cargo nextest 144/144; demo fails with the patch and passes without (see confirm.log)"
T = {
 'regress-F1': ('C03', 'reversal of fix bea53f6: FromIterator under Guard::unprotected()', 'collect() of an iterator whose lower size hint is too small (a resize during put_all) or with many colliding keys', 'C03 (mode B ledger + Miri replay)'),
 'regress-F2': ('C09', 'reversal of fix 41f937d: try_insert / clear without check_guard', 'a guard of a foreign collector passed to try_insert / clear (also through the wrappers and HashSet)', 'C09'),
 'regress-F3': ('C14', 'reversal of fix 90d1d01: add_count computes old+|n| for negative deltas', 'a removal through compute_if_present at count = threshold-1', 'C14'),
 'regress-F4': ('C19', 'reversal of fix 262669d: serde visit_map unreachable!() on a repeated key', 'well-formed input repeating a key', 'C19'),
 'C01-1': ('C01', 'replace_node (remove) tree arm: head re-check moved in front of the bin lock', 'a remove waiting on a tree bin lock while a resize splits that bin', 'C01 (interleavings: tree/split-by-resize-vs-remove)'),
 'C01-2': ('C01', 'compute_if_present tree arm: bin lock released before untreeify + store_bin', 'a second writer on the same tree bin while it is being untreeified', 'C01 (interleavings: tree/untreeify-by-compute-*)'),
 'C02-1': ('C02', 'put fast path for try_insert compares only the hash of the head', 'two distinct keys with identical full hash, try_insert of the second while the first is bin head', 'C02'),
 'C02-2': ('C02', 'clear tree arm counts from root instead of first', 'clear() of a tree bin, then len()/is_empty()', 'C02 and C05'),
 'C03-1': ('C03', 'clear tree arm: re-check after taking the bin lock dropped', 'clear losing the lock race on a tree bin to an untreeifying removal / another clear', 'C03 (interleavings: tree/clear-vs-*)'),
 'C03-2': ('C03', 'transfer list arm: old nodes retired before the bin is unlinked', 'a reader pinning between the retirement and the Moved store', 'C03 (interleavings: resize/insert-vs-get-*; ledger with per-retirement protection sets)'),
 'C04-1': ('C04', 'transfer tree arm: reused-bin flag computed from counts only', 'a tree bin shrunk to <= 6 nodes without untreeify, moved by a resize with all nodes on one side', 'C04 (shrunk-then-resized scenarios)'),
 'C04-2': ('C04', 'treeify_bin: head re-check after locking dropped', 'a bin crossing the treeify threshold while another writer changes its head', 'C04 (interleavings: treeify/*)'),
 'C05-1': ('C05', 'add_count: saturating decrement', 'a decrement overtaking the increment of the insert it undoes', 'C05 (interleavings: empty/insert-vs-remove-same-key, list/insert-vs-clear)'),
 'C05-2': ('C05', 'clear tree arm: one extra decrement per tree bin', 'clear() of a tree bin then another insert', 'C05'),
 'C06-1': ('C06', 'balance_insertion: stale x_parent after the inner rotate_right', 'insertion orders producing the right-hand zig-zag in a tree bin', 'C06 (black-height check, native inspector replay)'),
 'C06-2': ('C06', 'tree lock: WAITER bit never cleared after a contended write', 'a restructuring writer that had to wait for a reader', 'C06 and C11 (interleavings: tree/contended-*, lock word must return to 0)'),
 'C07-1': ('C07', 'NodeIter: wrong stride saved when descending a forwarded bin', 'nested resize with bins forwarded out of order (several helpers)', 'C07 (hand-built forwarding states, in-crate native test)'),
 'C07-2': ('C07', 'recover_state: < became <=', 'bin 0 already forwarded at the iterator\'s first next()', 'C07'),
 'C08-1': ('C08', 'compute_if_present tree arm: head re-check before the bin lock', 'compute waiting on a tree bin lock while a resize splits the bin', 'C08 (interleavings: tree/split-by-resize-vs-compute)'),
 'C08-2': ('C08', 'put tree arm: bin lock released before the value swap', 'a replacing insert racing a compute on the same key in a tree bin', 'C08 (interleavings: tree/compute-vs-replace)'),
 'C09-1': ('C09', 'guarded_eq looks up through the unchecked get_node', 'equality with a wrapper holding a foreign guard on the right-hand side', 'C09'),
 'C09-2': ('C09', 'keys() loses check_guard in a refactor', 'a foreign guard passed to keys / set iteration paths', 'C09'),
 'C10-1': ('C10', 'finisher publishes load_factor(n) << 1', 'a table of length exactly 2 that grows', 'C10 (solver: threshold for every legal length; mode B)'),
 'C10-2': ('C10', 'empty-bin fast path passes no resize hint', 'inserts landing in empty bins (collision-free keys) reaching the threshold', 'C10 (growth-at-threshold oracle)'),
 'C11-1': ('C11', 'clear: table deref hoisted out of the loop', 'clear reading a forwarded bin after losing a race with a resize', 'C11 (interleavings: resize/insert-vs-clear, livelock bound)'),
 'C11-2': ('C11', 'compute_if_present calls add_count inside the bin critical section', 'count >= threshold with nobody resizing', 'C11 (one-lock-at-a-time path obligation)'),
 'C12-1': ('C12', 'TreeBin::find spins while WRITER is set without WAITER', 'a reader entering a tree bin whose root lock is held by a suspended writer', 'C12 (cycle-without-progress + root-lock replay)'),
 'C12-2': ('C12', 'get_node waits for the resize to finish on a miss behind a forwarding node', 'resize in progress with the resizer suspended, key absent, bin forwarded', 'C12 (suspended-writer interleavings)'),
 'C13-1': ('C13', 'replace_node tree arm ignores observed_value on removal', 'value replaced between inspection and removal, tree bins only', 'C13 (re-entrant replacement from the predicate)'),
 'C13-2': ('C13', 'HashMapRef::retain_force delegates to retain', 'retain_force through the pinned wrapper with a replacement in the window', 'C13 (ref facade)'),
 'C14-1': ('C14', 'try_presize exits when size <= size_ctl', 'len()+additional exactly 0.75 of the current length', 'C14'),
 'C14-2': ('C14', 'treeify_bin: n <= MIN_TREEIFY_CAPACITY', 'overfull bin in a table of exactly 64 bins', 'C14'),
 'C15-1': ('C15', 'tree insert links the new leaf with a Relaxed store', 'weak memory model; reader already inside the tree', 'C15 (publication-site query)'),
 'C15-2': ('C15', 'transfer publishes the new bins and the marker with Relaxed stores', 'weak memory model; reader forwarded during a resize', 'C15 (publication-site query)'),
 'C16-1': ('C16', 'compute_if_present takes guard: &Guard<\'g>', 'use of the result after drop/refresh of the guard', 'C16'),
 'C16-2': ('C16', 'HashMapRef mutating impl requires K, V: \'static', 'non-static keys/values through the pinned wrapper', 'C16 (positive program + bound scan)'),
 'C17-1': ('C17', 'FromIterator<(K,V)> drops Send+Sync (helper refactor)', 'collect() with Cell/Rc keys or values', 'C17'),
 'C17-2': ('C17', 'inherent inserting impl requires only V: Send', 'a Send + !Sync value through insert/try_insert/compute_if_present', 'C17'),
 'C18-1': ('C18', 'bin locks become poisoning std::sync::Mutex', 'a panic in the compute_if_present closure, then a write to the same bin', 'C18 (U4 + native panic replay)'),
 'C18-2': ('C18', 'retain applies the count once after the loop', 'a panic at the i-th predicate call after an earlier rejection', 'C18 (semantic panic injection in mode B)'),
 'C19-1': ('C19', 'visit_seq asserts len == size hint', 'a sequence repeating an element through a deserializer with exact size hints', 'C19'),
 'C19-2': ('C19', 'rayon par_extend uses try_insert', 'par_extend over keys already present', 'C19 (per-item closure obligation + rayon replay)'),
}
for sid, (prop, what, needs, by) in T.items():
    d = os.path.join(V, 'seeded', sid)
    if not os.path.isdir(d):
        print('missing', sid); continue
    conf = ''
    p = os.path.join(d, 'confirm.log')
    if os.path.exists(p):
        conf = open(p).read().strip().split('\n')[-1]
    meta = {'id': sid, 'breaks_property': prop, 'change': what, 'needs_to_manifest': needs, 'origin': 'reversal of a fix: commit in /repo' if sid.startswith('regress') else 'written by an independent sub-agent given only the property text and a scratch worktree',
            'confirmed_by': CONFIRM if not sid.startswith('regress') else 'the defect was reproduced natively before the fix (DESIGN.md §7)', 'confirm_summary': conf, 'detected_by': by}
    json.dump(meta, open(os.path.join(d, 'meta.json'), 'w'), indent=1)
print('ok')
