#!/bin/bash
# runs every registered quick check on the current tree (evidence files must come from a clean /repo)
cd "$(dirname "$0")/.."
git -C /repo status --short | grep -q . && { echo "/repo is dirty"; exit 3; }
rc=0
for id in $(python3 -c "import json; print(' '.join(c['property_id'] for c in json.load(open('MANIFEST.json'))['checks']))"); do
  start=$(date +%s)
  out=$(./check $id --tier ${1:-quick} 2>&1 | grep -E "^OK|VIOLATION|INCONCLUSIVE|KNOWN-FINDING" | head -3)
  echo "$id ($(( $(date +%s) - start ))s): $out"
  echo "$out" | grep -q "^OK" || rc=1
done
exit $rc
