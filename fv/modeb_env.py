"""Environment of the concrete-heap interpreter: models of std / seize / parking_lot callees, generic-type instantiation
(keys and values as tokens), drop impls, closures."""
from __future__ import annotations
import os, re
from typing import Any, Dict, List, Optional, Tuple, Callable
import z3
from . import mir as M, common as C
from .mirpath import Program, callee_name
from .modeb import (Sc, Agg, Alloc, Ptr, NULL, Holder, BoxV, Wrap, VecV, Tok, FnDef, Opaque, MutexV, MutexGuardV, Unwind, Violation,
                    Unsupported, UNIT, CollectorV, GuardV, Interp, to_z3, mask, WIDTH, SIGNED)


def enum_variants(srcroot: str) -> Dict[str, List[str]]:
    out: Dict[str, List[str]] = {}
    for root, _, files in os.walk(os.path.join(srcroot, 'src')):
        for f in files:
            if not f.endswith('.rs'):
                continue
            text = open(os.path.join(root, f)).read()
            for m in re.finditer(r'\benum\s+([A-Za-z0-9_]+)\s*(<[^{;]*?>)?\s*(where[^{]*)?\{', text):
                start = m.end() - 1
                try:
                    end = M.match_close(text, start)
                except Exception:
                    continue
                body = re.sub(r'//[^\n]*', '', text[start + 1:end])
                body = re.sub(r'#\[[^\]]*\]', '', body)
                vs = []
                for part in M.split_top(body, ','):
                    mm = re.match(r'\s*([A-Z][A-Za-z0-9_]*)', part)
                    if mm:
                        vs.append(mm.group(1))
                out[m.group(1)] = vs
    return out


def struct_field_lists(srcroot: str) -> Dict[str, List[str]]:
    from .mirsym import struct_fields
    sf = struct_fields(srcroot)
    out: Dict[str, List[str]] = {}
    for (name, idx), fname in sorted(sf.items(), key=lambda kv: (kv[0][0], kv[0][1])):
        out.setdefault(name, []).append(fname)
    return out


_FAST: Dict[str, int] = {}


class Env:
    """one per scenario run (shared across paths: only immutable tables live here)"""

    def __init__(self, prog: Program, hash_fn: Callable[[Interp, Any], Any], ncpu: int = 1):
        self.prog = prog
        src = next(iter(prog.fns.values())).srcroot
        self.enum_variants = enum_variants(src)
        self.struct_fields = struct_field_lists(src)
        self.hash_fn = hash_fn
        self.ncpu = ncpu
        self.drop_impls: Dict[str, M.Function] = {}
        for n, f in prog.fns.items():
            m = re.match(r'<(.+?) as Drop>::drop$', n)
            if m:
                self.drop_impls[m.group(1).split('::')[-1]] = f
        self._closure_cache: Dict[str, M.Function] = {}
        self.user_closures: Dict[str, Callable] = {}

    # ---- closures --------------------------------------------------------------------
    def closure_body(self, it: Interp, f: Agg) -> M.Function:
        ty = f.ty
        if ty in self._closure_cache:
            return self._closure_cache[ty]
        best = None
        for n, fn in self.prog.fns.items():
            if '{closure#' in n and not fn.is_const and fn.params and fn.params[0][1].replace('&mut ', '').replace('&', '').strip() == ty:
                best = (0, fn)
                break
        if best is None:
            raise Unsupported('closure body for ' + ty)
        self._closure_cache[ty] = best[1]
        return best[1]

    # ---- guards / collector ----------------------------------------------------------
    def drop_guard(self, it: Interp, g: GuardV):
        if g.dropped:
            raise Violation('double-drop', 'guard dropped twice')
        g.dropped = True
        c = g.collector
        if c is None:
            return
        c.active_guards -= 1
        c.active.discard(g.id)
        self.flush(it, c, g.id)

    def flush(self, it: Interp, c: CollectorV, gone: Optional[int] = None):
        """an object is reclaimed once every guard that was active when it was retired has been dropped"""
        ready = []
        for rec in c.retired:
            if gone is not None:
                rec[2].discard(gone)
            if not rec[2]:
                ready.append(rec)
        for rec in ready:
            c.retired.remove(rec)
        for ptr, reclaim, _ in ready:
            self.reclaim(it, ptr, reclaim)

    def reclaim(self, it: Interp, ptr: Ptr, reclaim):
        a = ptr.base
        if isinstance(a, Alloc):
            if a.freed:
                raise Violation('double-free', '%r reclaimed twice (%s; freed at: %s)' % (a, a.site, getattr(a, 'free_site', '?')))
        if isinstance(reclaim, Agg) and reclaim.variant == 'closure':
            it.call_value(reclaim, [ptr])          # a custom reclaimer (TreeBin::defer_drop_without_values)
            return
        if isinstance(reclaim, FnDef) and not reclaim.name.endswith('reclaim::boxed'):
            raise Unsupported('reclaimer %r' % (reclaim,))
        # seize::reclaim::boxed::<T>: Box::from_raw + drop
        it.drop_value(BoxV(ptr), 'reclamation of retired object')

    def retire(self, it: Interp, guard: GuardV, ptr: Ptr, reclaim):
        if ptr.base is None:
            raise Violation('retire-null', 'null pointer retired')
        a = ptr.base
        if isinstance(a, Alloc):
            if a.freed:
                raise Violation('retire-freed', '%r retired after it was freed' % (a,))
            if a.retired:
                raise Violation('double-retire', '%r retired twice' % (a,))
            a.retired = True
            a.site = '%s | retired in %s' % (a.site, '>'.join(it.stack[-4:]))
        if guard.collector is None:
            self.reclaim(it, ptr, reclaim)       # unprotected guard: reclaimed immediately
        else:
            guard.collector.retired.append([ptr, reclaim, set(guard.collector.active)])

    # ---- keys ---------------------------------------------------------------------------
    def key_eq(self, it: Interp, a, b) -> Sc:
        a, b = self.untok(it, a), self.untok(it, b)
        if isinstance(a.val, int) and isinstance(b.val, int):
            return Sc(a.val == b.val, 'bool')
        return Sc(to_z3(Sc(a.val, 'u8')) == to_z3(Sc(b.val, 'u8')), 'bool')

    def key_cmp(self, it: Interp, a, b) -> Sc:
        a, b = self.untok(it, a), self.untok(it, b)
        if isinstance(a.val, int) and isinstance(b.val, int):
            return Sc(-1 if a.val < b.val else (0 if a.val == b.val else 1), 'i8')
        X, Y = to_z3(Sc(a.val, 'u8')), to_z3(Sc(b.val, 'u8'))
        return Sc(z3.If(z3.ULT(X, Y), z3.BitVecVal(-1, 8), z3.If(X == Y, z3.BitVecVal(0, 8), z3.BitVecVal(1, 8))), 'i8')

    def untok(self, it: Interp, v) -> Tok:
        n = 0
        while isinstance(v, Ptr) and n < 4:
            v = it.load_ptr(v)
            n += 1
        if not isinstance(v, Tok):
            raise Unsupported('expected a key/value token, got %r' % (v,))
        return v

    # ---- the big model table ----------------------------------------------------------------
    def disambiguate(self, it, name, targets, args, t):
        # pick by the runtime type of the first argument
        a0 = args[0] if args else None
        if isinstance(a0, Ptr):
            try:
                a0 = it.load_ptr(a0)
            except Exception:
                pass
        if isinstance(a0, Agg):
            last = a0.ty.split('::')[-1]
            for f in targets:
                if re.search(r'\b%s\b' % re.escape(last), f.name):
                    return f
        return None

    def model_fn_item(self, it: Interp, f: FnDef, args):
        n = f.name
        if re.search(r'(^|::)Cell::(get|set|replace|take)$', n):
            r = self.cell_op(it, n.rsplit('::', 1)[-1], args)
            if r is not NotImplemented:
                return r
        if n.endswith('seize::reclaim::boxed') or n.endswith('reclaim::boxed'):
            return NotImplemented
        return NotImplemented

    # ---- std::cell::Cell<T> is kept as a bare T (it is repr(transparent)); thread_local! slots live per logical thread ----
    def cell_op(self, it: Interp, op: str, args):
        p = args[0]
        if not isinstance(p, Ptr):
            return NotImplemented
        if op == 'get':
            return it.load_ptr(p)
        if op == 'set':
            it.store_ptr(p, args[1])
            return UNIT
        if op == 'replace':
            old = it.load_ptr(p)
            it.store_ptr(p, args[1])
            return old
        return NotImplemented

    def tls_slot(self, it: Interp, key) -> Holder:
        ident = None
        if isinstance(key, Ptr):
            key = it.load_ptr(key)
        for x in ([key] + list(getattr(key, 'fields', []) or [])):
            m = re.search(r'(\w+)::\{constant#\d+\}', str(getattr(x, 'name', '')) + ' ' + str(getattr(x, 'text', '')) + ' ' + str(x))
            if m:
                ident = m.group(1)
                break
        if ident is None:
            raise Unsupported('thread_local key %r' % (key,))
        if not hasattr(self, '_tls'):
            self._tls = {}
        store = it.__dict__.setdefault('tls', {})
        tid = getattr(getattr(it, 'lt', None), 'tid', 0)
        if (tid, ident) not in store:
            # initial value: read from the source (`static NAME: TYPE = EXPR;` inside thread_local!); integer / bool cells only
            src = next(iter(self.prog.fns.values())).srcroot
            init = None
            for root, _, files in os.walk(os.path.join(src, 'src')):
                for fn_ in files:
                    if fn_.endswith('.rs'):
                        txt = open(os.path.join(root, fn_)).read()
                        m = re.search(r'static\s+%s\s*:\s*([^=]+?)=\s*(?:const\s*\{)?\s*(?:std::cell::|cell::)?(?:Cell|RefCell)::new\(\s*(-?\d+|true|false)\s*\)' % re.escape(ident), txt)
                        if m:
                            ty = re.search(r'Cell<\s*(\w+)\s*>', m.group(1))
                            lit = m.group(2)
                            init = Sc(lit == 'true', 'bool') if lit in ('true', 'false') else Sc(int(lit), ty.group(1) if ty else 'usize')
            if init is None:
                raise Unsupported('initial value of thread_local %s' % ident)
            store[(tid, ident)] = Holder(init)
        return store[(tid, ident)]

    def model(self, it: Interp, name: str, t: M.Terminator, args: List[Any], fr) -> Any:
        # ---- fast paths for the hottest modelled callees (classified once per name) ----
        code = _FAST.get(name)
        if code is None:
            if name.endswith('Linked as Deref>::deref') or name.endswith('Linked as DerefMut>::deref_mut'):
                code = 1
            elif name.endswith('Guard::protect'):
                code = 2
            elif name.rsplit('::', 1)[-1] == 'is_null' and 'ptr::' in name:
                code = 3
            elif name.rsplit('::', 1)[-1] == 'null_mut':
                code = 4
            elif 'sync::atomic::Atomic' in name and name.rsplit('::', 1)[-1] in ('load', 'store'):
                code = 5
            elif re.search(r'(^|::)Option::(unwrap|expect)$', name):
                code = 6
            else:
                code = 0
            _FAST[name] = code
        if code:
            if code == 1:
                p = args[0]
                return Ptr(p.base, p.path + (('field', 1),))
            if code == 2:
                if it.sched is not None and it.sched.yield_loads:
                    self.sp(it, 'load (protect) @ %s' % (t.span,))
                cell = it.load_ptr(args[1])
                return cell.fields[0]
            if code == 3 and isinstance(args[0], Ptr):
                return Sc(args[0].base is None, 'bool')
            if code == 4:
                return NULL
            if code == 5:
                if it.sched is not None and (it.sched.yield_loads or not name.endswith('load')):
                    self.sp(it, '%s @ %s' % (name.rsplit('::', 1)[-1], t.span))
                cell = it.load_ptr(args[0])
                if isinstance(cell, Agg) and len(cell.fields) == 1:
                    if name.endswith('load'):
                        return cell.fields[0]
                    cell.fields[0] = args[1]
                    return UNIT
            if code == 6:
                o = args[0]
                if o.variant != 'Some':
                    it.panics.append('unwrap on None @ %s' % t.span)
                    raise Unwind('called `Option::unwrap()` on a `None` value @ %s' % t.span)
                return o.fields[0]
        last = name.rsplit('::', 1)[-1]
        raw = t.callee or ''

        def deref(v):
            return it.load_ptr(v) if isinstance(v, Ptr) else v

        # ---------------- panics ----------------
        if last in ('panic', 'panic_fmt', 'panic_display', 'unreachable_display', 'panic_explicit', 'begin_panic', 'panic_nounwind') or name.endswith('panicking::assert_failed') or last == 'assert_failed':
            msg = 'panic'
            for a in args:
                if isinstance(a, Opaque):
                    msg = a.what
            it.panics.append('%s @ %s' % (msg, t.span))
            raise Unwind('%s @ %s' % (msg, t.span))
        if last in ('from_str_nonconst', 'new_const', 'new_v1', 'from_str') and 'Arguments' in name:
            return Opaque(args[0].what if args and isinstance(args[0], Opaque) else 'fmt')
        # ---------------- generic key / value / hasher ----------------
        if re.match(r'<&?[KVQT] as PartialEq>::(eq|ne)$', name):
            a, b = args
            r = self.key_eq(it, a, b)
            if last == 'ne':
                r = Sc((not r.v) if r.concrete else z3.Not(r.v), 'bool')
            return r
        if re.match(r'<&?[KVQT] as (Ord|PartialOrd)>::cmp$', name):
            return self.key_cmp(it, args[0], args[1])
        if re.match(r'<&?[KVQT] as Borrow>::borrow$', name):
            return args[0]
        if re.match(r'<&?[KVQT] as Clone>::clone$', name):
            src = self.untok(it, args[0])
            return Tok(src.kind, src.val, src.tag, it.ledger)
        if re.match(r'<[A-Z][A-Za-z0-9]* as (std::hash::)?BuildHasher>::hash_one$', name) or name.endswith('BuildHasher>::hash_one'):
            k = self.untok(it, args[1])
            return self.hash_fn(it, k)
        if re.match(r'<S as Default>::default$', name) or re.match(r'<S as Clone>::clone$', name):
            return Opaque('S::default')
        if re.match(r'<&?(mut )?[A-Z][A-Za-z0-9]* as Fn(Once|Mut)?>::call(_once|_mut)?$', name):
            f = args[0]
            tup = args[1]
            cargs = tup.fields if isinstance(tup, Agg) else ([] if tup is UNIT else [tup])
            return it.call_value(f, cargs)
        if re.search(r' as Into(<.*>)?>::into$', name):
            v = args[0]
            dty = (fr.fn.locals.get(t.place.local, '') if not t.place.proj else '')
            m2 = re.search(r'as Into<(.*)>>::into', t.callee or '')
            want = m2.group(1) if m2 else dty
            if isinstance(v, Agg) and v.ty.endswith('Shared') and 'Atomic<' in want:
                return it.call_fn(it.prog.get('<reclaim::Atomic as From>::from'), [v])
            if isinstance(v, Agg) and v.ty.endswith('Atomic'):
                return v
            if isinstance(v, Ptr):
                if 'Shared<' in want:
                    return it.call_fn(it.prog.get('<reclaim::Shared as From>::from'), [v])
                if 'AtomicPtr<' in want or 'atomic::Atomic<' in want:
                    return Agg('AtomicPtr', None, [v])
            raise Unsupported('Into::into of %r to %s' % (v, want))
        mm = re.match(r'<(.+) as Iterator>::(all|any|count|for_each)$', name)
        if mm:
            nxt = it.prog.resolve('<%s as Iterator>::next' % mm.group(1), 1)
            if len(nxt) == 1:
                by_ref = isinstance(args[0], Ptr)
                h = None if by_ref else Holder(args[0])
                iref = args[0] if by_ref else Ptr(h, ())
                n_items = 0
                res = None
                while True:
                    r = it.call_fn(nxt[0], [iref])
                    if r.variant == 'None':
                        break
                    n_items += 1
                    if last in ('all', 'any'):
                        fh = Holder(args[1])
                        b = it.call_value(Ptr(fh, ()), [r.fields[0]])
                        if it.truth(b) != (last == 'all'):
                            res = Sc(last == 'any', 'bool')
                            break
                    elif last == 'for_each':
                        fh = Holder(args[1])
                        it.call_value(Ptr(fh, ()), [r.fields[0]])
                if h is not None:
                    it.drop_value(h.val, 'iterator consumed')
                if last == 'count':
                    return Sc(n_items, 'usize')
                if last == 'for_each':
                    return UNIT
                return res if res is not None else Sc(last == 'all', 'bool')
        if re.match(r'<Option as PartialEq>::(eq|ne)$', name):
            a, b = deref(args[0]), deref(args[1])
            if a.variant != b.variant:
                r = False
            elif a.variant == 'None':
                r = True
            else:
                x, y = a.fields[0], b.fields[0]
                m = re.search(r'<Option<&?(\w+)', t.callee_full if hasattr(t, 'callee_full') else '')
                eqs = it.prog.resolve('<reclaim::Shared as PartialEq>::eq', 2)
                if isinstance(x, Ptr) and isinstance(deref(x), Agg) and eqs and 'Shared' in str(getattr(t, 'callee', '')):
                    rr = it.call_fn(eqs[0], [x, y])
                    r = rr.v if rr.concrete else rr.v
                    if not rr.concrete:
                        return Sc(r if name.endswith('eq') else z3.Not(r), 'bool')
                else:
                    raise Unsupported('Option == Option over %r' % (x,))
            return Sc(r if name.endswith('eq') else (not r), 'bool')
        if name.endswith('PartialEq>::ne'):
            eqs = it.prog.resolve(name[:-2] + 'eq', 2)
            if len(eqs) == 1:
                r = it.call_fn(eqs[0], args)
                return Sc((not r.v) if r.concrete else z3.Not(r.v), 'bool')
        # ---------------- panicking / abort / stderr ----------------
        if name == 'panicking' or name.endswith('::panicking'):
            return Sc(bool(getattr(it, 'panicking', False)), 'bool')
        if name == 'abort' or name.endswith('process::abort') or name.endswith('intrinsics::abort'):
            raise Violation('abort', 'std::process::abort() reached%s in %s' % (' while a panic unwinds' if getattr(it, 'panicking', False) else '', ' > '.join(it.stack[-4:])))
        if name in ('_eprint', '_print') or name.endswith('io::_eprint') or name.endswith('io::_print') or name.endswith('io::stdio::_eprint') or name.endswith('io::stdio::_print'):
            return UNIT
        # ---------------- thread_local! / Cell ----------------
        if name.endswith('LocalKey::new') or name.endswith('LocalKey::<T>::new'):
            return Agg('LocalKey', 'key', [args[0]])
        if re.search(r'(^|::)LocalKey::(with|try_with)$', name):
            slot = self.tls_slot(it, args[0])
            fh = Holder(args[1])
            r = it.call_value(Ptr(fh, ()), [Ptr(slot, ())])
            return r if name.endswith('::with') else Agg('Result', 'Ok', [r])
        if re.search(r'(^|::)Cell::new$', name):
            return args[0]
        if re.search(r'(^|::)Cell::(get|set|replace)$', name):
            r = self.cell_op(it, name.rsplit('::', 1)[-1], args)
            if r is not NotImplemented:
                return r
        # ---------------- Option / Result / ControlFlow ----------------
        if re.search(r'(^|::)Option::is_none$', name):
            return Sc(deref(args[0]).variant == 'None', 'bool')
        if re.search(r'(^|::)Option::is_some$', name):
            return Sc(deref(args[0]).variant == 'Some', 'bool')
        if re.search(r'(^|::)Option::(unwrap|expect)$', name):
            o = args[0]
            if o.variant != 'Some':
                it.panics.append('unwrap on None @ %s' % t.span)
                raise Unwind('called `Option::unwrap()` on a `None` value @ %s' % t.span)
            return o.fields[0]
        if re.search(r'(^|::)Option::unwrap_or$', name):
            o = args[0]
            return o.fields[0] if o.variant == 'Some' else args[1]
        if re.search(r'(^|::)Option::map$', name):
            o = args[0]
            if o.variant != 'Some':
                it.drop_value(args[1])
                return Agg('Option', 'None', [])
            return Agg('Option', 'Some', [it.call_value(args[1], [o.fields[0]])])
        if re.search(r'(^|::)Option::map_or$', name):
            o = args[0]
            if o.variant != 'Some':
                return args[1]
            return it.call_value(args[2], [o.fields[0]])
        if re.search(r'(^|::)Option::as_ref$', name):
            p = args[0]
            o = deref(p)
            if o.variant != 'Some':
                return Agg('Option', 'None', [])
            return Agg('Option', 'Some', [Ptr(p.base, p.path + (('downcast', 'Some'), ('field', 0)))])
        if re.search(r'(^|::)Option::take$', name):
            p = args[0]
            o = deref(p)
            it.store_ptr(p, Agg('Option', 'None', []))
            return o
        if re.search(r'(^|::)Option::is_some_and$', name):
            o = args[0]
            if o.variant != 'Some':
                return Sc(False, 'bool')
            return it.call_value(args[1], [o.fields[0]])
        if re.search(r'(^|::)Result::is_ok$', name):
            return Sc(deref(args[0]).variant == 'Ok', 'bool')
        if re.search(r'(^|::)Result::is_err$', name):
            return Sc(deref(args[0]).variant == 'Err', 'bool')
        if re.search(r'(^|::)Result::(unwrap|expect)$', name):
            o = args[0]
            if o.variant != 'Ok':
                raise Unwind('unwrap on Err @ %s' % t.span)
            return o.fields[0]
        if re.search(r'(^|::)Result::ok$', name):
            o = args[0]
            return Agg('Option', 'Some', [o.fields[0]]) if o.variant == 'Ok' else Agg('Option', 'None', [])
        if name.endswith('as Try>::branch'):
            o = args[0]
            if o.ty.endswith('Option'):
                if o.variant == 'Some':
                    return Agg('ControlFlow', 'Continue', [o.fields[0]])
                return Agg('ControlFlow', 'Break', [Agg('Option', 'None', [])])
            if o.variant == 'Ok':
                return Agg('ControlFlow', 'Continue', [o.fields[0]])
            return Agg('ControlFlow', 'Break', [Agg('Result', 'Err', [o.fields[0]])])
        if name.endswith('FromResidual>::from_residual') or 'as FromResidual' in name:
            o = args[0]
            if isinstance(o, Agg) and o.ty.endswith('Option'):
                return Agg('Option', 'None', [])
            return o
        # ---------------- integers ----------------
        if last == 'leading_zeros':
            a = args[0]
            if a.concrete:
                w = WIDTH[a.ty]
                v = int(a.v) & ((1 << w) - 1)
                return Sc(w - v.bit_length(), 'u32')
            raise Unsupported('symbolic leading_zeros')
        if last == 'next_power_of_two':
            a = args[0]
            if a.concrete:
                v = int(a.v)
                n = 1
                while n < v:
                    n <<= 1
                return Sc(mask(n, a.ty), a.ty)
            raise Unsupported('symbolic next_power_of_two')
        if last == 'abs' and 'num' in name:
            a = args[0]
            return it.sc(abs(int(a.v)), a.ty)
        if last == 'saturating_add':
            a, b = args
            w = WIDTH[a.ty]
            return Sc(min(int(a.v) + int(b.v), (1 << w) - 1), a.ty)
        if last in ('min', 'max') and len(args) == 2 and all(isinstance(x, Sc) for x in args):
            a, b = args
            if a.concrete and b.concrete:
                return a if ((int(a.v) <= int(b.v)) == (last == 'min')) else b
        if last == 'cmp' and len(args) == 2:
            a, b = deref(args[0]), deref(args[1])
            if isinstance(a, Sc) and isinstance(b, Sc):
                return it.binop('Cmp', a, b)
        if name.endswith('cmp::Ordering::then'):
            a, b = args
            if a.concrete:
                return b if int(a.v) == 0 else a
            if it.truth(Sc(a.v == 0, 'bool')):
                return b
            return a
        if re.search(r'cmp::Ordering::(is_eq|is_ne|is_lt|is_gt|is_le|is_ge)$', name):
            a = args[0]
            op = {'is_eq': 'Eq', 'is_ne': 'Ne', 'is_lt': 'Lt', 'is_gt': 'Gt', 'is_le': 'Le', 'is_ge': 'Ge'}[last]
            return it.binop(op, a, Sc(0, 'i8'))
        if last == 'size_of':
            return Sc(8, 'usize')
        if last == 'spin_loop' or last == 'yield_now':
            if it.sched is not None:
                self.sp(it, 'yield (%s) @ %s' % (last, t.span), spin=True)
                return UNIT
            if last == 'yield_now':
                raise Violation('would-block', 'thread::yield_now reached on a sequential path (waiting for another thread) @ %s' % t.span)
            return UNIT
        # ---------------- mem ----------------
        if name in ('std::mem::drop', 'core::mem::drop', 'drop') or name.endswith('mem::drop'):
            it.drop_value(args[0], 'mem::drop @ %s' % t.span)
            return UNIT
        if name.endswith('mem::forget'):
            return UNIT
        if name.endswith('mem::replace'):
            p, new = args
            old = it.load_ptr(p)
            it.store_ptr(p, new)
            return old
        if name.endswith('mem::take'):
            raise Unsupported('mem::take')
        # ---------------- Box / Vec / slices ----------------
        if name.endswith('Box::new') or name == 'Box::new':
            a = Alloc(args[0], 'box', str(t.span))
            it.ledger.allocs.append(a)
            return BoxV(Ptr(a, ()))
        if name.endswith('Box::from_raw'):
            p = args[0]
            if isinstance(p.base, Alloc) and p.base.freed:
                raise Violation('use-after-free', 'Box::from_raw of freed %r @ %s' % (p.base, t.span))
            return BoxV(p)
        if name.endswith('Box::into_raw') or name.endswith('Box::leak'):
            return args[0].ptr
        if name.endswith('as Drop>::drop') and 'Box<' in raw:
            # drop of the box allocation itself after its content was moved out (drop elaboration of a partially moved box)
            b = deref(args[0])
            a = b.ptr.base
            if isinstance(a, Alloc):
                if a.freed:
                    raise Violation('double-free', 'Box %r freed twice @ %s' % (a, t.span))
                a.freed = True
            return UNIT
        if name.endswith('vec::from_elem') or name.endswith('from_elem'):
            elem, n = args
            cnt = it.concretize(n, 'vec length')
            a = Alloc([it.copy_val(elem) if not isinstance(elem, Agg) else self.clone_atomic(it, elem) for _ in range(cnt)], 'vec', str(t.span))
            it.ledger.allocs.append(a)
            return VecV(a)
        if name.endswith('Vec::new') or name.endswith('Vec::with_capacity'):
            a = Alloc([], 'vec', str(t.span))
            return VecV(a)
        if name.endswith('Vec::push'):
            v = deref(args[0])
            v.alloc.val.append(args[1])
            return UNIT
        if name.endswith('Vec::pop'):
            v = deref(args[0])
            if not v.alloc.val:
                return Agg('Option', 'None', [])
            return Agg('Option', 'Some', [v.alloc.val.pop()])
        if name.endswith('Vec::clear'):
            v = deref(args[0])
            for x in v.alloc.val:
                it.drop_value(x, 'Vec::clear')
            del v.alloc.val[:]
            return UNIT
        if name.endswith('Vec as Deref>::deref') or name.endswith('Vec as DerefMut>::deref_mut') or name.endswith('Vec::as_slice') or name.endswith('Vec::as_mut_slice'):
            v = deref(args[0])
            return Ptr(v.alloc, ())
        if (name.endswith('as Index>::index') or name.endswith('as IndexMut>::index_mut')) and isinstance(deref(args[0]), (VecV, list)):
            v = deref(args[0])
            i = it.concretize(args[1], 'vector index')
            if isinstance(v, VecV):
                if not (0 <= i < len(v.alloc.val)):
                    raise Unwind('index out of bounds @ %s' % t.span)
                return Ptr(v.alloc, (('idx', i),))
            base = args[0]
            if not (0 <= i < len(v)):
                raise Unwind('index out of bounds @ %s' % t.span)
            return Ptr(base.base, base.path + (('idx', i),))
        if name.endswith('slice::iter') or name.endswith('Vec::iter'):
            v = deref(args[0])
            base = Ptr(v.alloc, ()) if isinstance(v, VecV) else args[0]
            return Agg('slice::Iter', None, [base, Sc(0, 'usize')])
        if name.endswith('as Iterator>::next') and isinstance(deref(args[0]), Agg) and deref(args[0]).ty == 'slice::Iter':
            itv = deref(args[0])
            base, pos = itv.fields
            lst = it.load_ptr(base)
            i = int(pos.v)
            if i >= len(lst):
                return Agg('Option', 'None', [])
            itv.fields[1] = Sc(i + 1, 'usize')
            return Agg('Option', 'Some', [Ptr(base.base, base.path + (('idx', i),))])
        if name.endswith('as IntoIterator>::into_iter') and isinstance(args[0], Ptr) and isinstance(deref(args[0]), (VecV, list)):
            v = deref(args[0])
            base = Ptr(v.alloc, ()) if isinstance(v, VecV) else args[0]
            return Agg('slice::Iter', None, [base, Sc(0, 'usize')])
        if name.endswith('Vec::into_boxed_slice'):
            return BoxV(Ptr(args[0].alloc, ()))
        if name.endswith('slice::into_vec') or (name.endswith('as From>::from') and 'Vec<' in raw and isinstance(args[0], BoxV)):
            return VecV(args[0].ptr.base)
        if name.endswith('slice::is_empty') or name.endswith('Vec::is_empty'):
            v = deref(args[0])
            if isinstance(v, VecV):
                v = v.alloc.val
            return Sc(len(v) == 0, 'bool')
        if name.endswith('slice::len') or name.endswith('Vec::len'):
            v = deref(args[0])
            if isinstance(v, VecV):
                v = v.alloc.val
            return Sc(len(v), 'usize')
        if (name.endswith('as IntoIterator>::into_iter') or name.endswith('as Iterator>::next') or name.endswith('as Iterator>::size_hint')) and args:
            a0 = args[0]
            tgt = it.load_ptr(a0) if isinstance(a0, Ptr) else a0
            if type(tgt).__name__ == 'PyIter':
                if last == 'into_iter':
                    return tgt
                return tgt.next() if last == 'next' else tgt.size_hint()
        if name.endswith('as IntoIterator>::into_iter') and isinstance(args[0], Agg) and args[0].ty.split('::')[-1] in ('Iter', 'Keys', 'Values', 'NodeIter'):
            return args[0]          # blanket impl<I: Iterator> IntoIterator for I
        if name.endswith('as IntoIterator>::into_iter') and isinstance(args[0], VecV):
            return Agg('vec::IntoIter', None, [args[0], Sc(0, 'usize')])
        if name.endswith('as Iterator>::next') and isinstance(deref(args[0]), Agg) and deref(args[0]).ty == 'vec::IntoIter':
            itv = deref(args[0])
            vec, pos = itv.fields
            i = int(pos.v)
            lst = vec.alloc.val
            if i >= len(lst):
                return Agg('Option', 'None', [])
            itv.fields[1] = Sc(i + 1, 'usize')
            x = lst[i]
            lst[i] = None
            return Agg('Option', 'Some', [x])
        # ---------------- raw pointers ----------------
        if last in ('null_mut',) or name.endswith('ptr::null'):
            return NULL
        if last == 'is_null' and 'ptr::' in name and isinstance(args[0], Ptr):
            return Sc(args[0].base is None, 'bool')
        if last == 'as_ref' and 'ptr::' in name and isinstance(args[0], Ptr):
            p = args[0]
            if p.base is None:
                return Agg('Option', 'None', [])
            it.check_alive(p.base, 'as_ref')
            return Agg('Option', 'Some', [p])
        # ---------------- atomics (sequential cells) ----------------
        if 'sync::atomic::Atomic' in name or name.startswith('AtomicPtr::') or '::AtomicPtr::' in name or re.search(r'Atomic(Isize|I64|Bool|Usize|Ptr)::', name):
            return self.atomic(it, name, last, t, args)
        if name.endswith('as Default>::default') and 'AtomicPtr' in raw:
            return Agg('AtomicPtr', None, [NULL])
        if name.endswith('as From>::from') and 'AtomicPtr' in raw:
            return Agg('AtomicPtr', None, [args[0]])
        # ---------------- parking_lot ----------------
        if name.endswith('lock_api::Mutex::new') or name.endswith('Mutex::new') or name.endswith('Mutex::const_new'):
            return MutexV()
        if name.endswith('lock_api::Mutex::lock') or name.endswith('Mutex::lock'):
            p = args[0]
            m = it.load_ptr(p)
            if not isinstance(m, MutexV):
                raise Unsupported('lock of %r' % (m,))
            if it.held_locks:
                raise Violation('two-locks', 'a second bin lock is acquired while one is held @ %s' % t.span)
            if it.sched is not None:
                self.sp(it, 'lock bin @ %s' % (t.span,), blocking=('lock', lambda m=m: m))
            if m.locked:
                raise Violation('self-deadlock', 'bin lock acquired while already held on a sequential path @ %s' % t.span)
            m.locked = True
            it.held_locks.append(p)
            return MutexGuardV(p)
        if name.endswith('Mutex::force_unlock'):
            pm = args[0]
            m = it.load_ptr(pm)
            m.locked = False
            if pm in it.held_locks:
                it.held_locks.remove(pm)
            return UNIT
        # ---------------- seize ----------------
        if name.endswith('Collector::new'):
            return CollectorV()
        if name.endswith('Collector as Clone>::clone'):
            return deref(args[0])
        if name.endswith('Collector::enter'):
            c = deref(args[0])
            c.active_guards += 1
            g = GuardV(c)
            c.active.add(g.id)
            return g
        if name.endswith('Guard::unprotected'):
            return GuardV(None)
        if name.endswith('Guard::collector'):
            g = deref(args[0])
            if g.collector is None:
                return Agg('Option', 'None', [])
            h = Holder(g.collector)
            return Agg('Option', 'Some', [Ptr(h, ())])
        if name.endswith('Collector::ptr_eq'):
            return Sc(deref(args[0]) is deref(args[1]), 'bool')
        if name.endswith('Collector::link_boxed'):
            a = Alloc(Agg('seize::Linked', None, [UNIT, args[1]]), 'linked', str(t.span))
            it.ledger.allocs.append(a)
            return Ptr(a, ())
        if name.endswith('Guard::protect'):
            g = deref(args[0])
            cell = args[1]
            return self.atomic(it, 'AtomicPtr::load', 'load', t, [cell, args[2]])
        if name.endswith('Guard::defer_retire'):
            g = deref(args[0])
            self.retire(it, g, args[1], args[2])
            return UNIT
        if name.endswith('Guard::refresh'):
            g = deref(args[0])
            if g.collector is not None:
                self.flush(it, g.collector, g.id)       # leaves and re-enters: everything retired so far no longer waits for this guard
            return UNIT
        if name.endswith('Link::cast'):
            return args[0]
        if name.endswith('Linked as Deref>::deref'):
            p = args[0]
            return Ptr(p.base, p.path + (('field', 1),))
        if name.endswith('Linked as DerefMut>::deref_mut'):
            p = args[0]
            return Ptr(p.base, p.path + (('field', 1),))
        # ---------------- threads / cpu ----------------
        if name.endswith('num_cpus') or name == 'num_cpus':
            return Sc(self.ncpu, 'usize')
        if it.sched is not None and (name.endswith('thread::current') or name == 'current'):
            return Agg('Thread', None, [Sc(it.lt.tid, 'usize')])
        if it.sched is not None and (name.endswith('thread::park') or name == 'park'):
            lt = it.lt
            self.sp(it, 'park @ %s' % (t.span,), blocking=('park',))
            lt.token = False
            return UNIT
        if it.sched is not None and name.endswith('Thread::unpark'):
            h = deref(args[0])
            tid = int(h.fields[0].v)
            self.sp(it, 'unpark thread %d @ %s' % (tid, t.span))
            for o in it.sched.threads:
                if o.tid == tid:
                    o.token = True
            return UNIT
        if name.endswith('thread::current') or name.endswith('thread::park') or name == 'park' or name == 'current' or name.endswith('Thread::unpark'):
            if last == 'unpark':
                return UNIT
            raise Violation('would-block', 'thread::%s reached on a sequential path @ %s' % (last, t.span))
        # ---------------- Deref of GuardRef handled by crate MIR; misc ----------------
        if name.endswith('convert::identity'):
            return args[0]
        return NotImplemented

    def sp(self, it: Interp, what: str, blocking=None, spin: bool = False):
        s = it.sched
        if s is not None:
            s.point(it.lt, what, blocking, spin)

    def clone_atomic(self, it: Interp, v):
        # vec![Atomic::null(); n] clones through <reclaim::Atomic as Clone>::clone - the element is null, a structural copy is exact
        return it.copy_val(v)

    def atomic(self, it: Interp, name: str, last: str, t, args):
        if last in ('new',):
            return Agg('AtomicCell', None, [args[0]])
        if last == 'default':
            return Agg('AtomicCell', None, [NULL])
        if last == 'into_inner':
            return args[0].fields[0]
        p = args[0]
        if it.sched is not None and (it.sched.yield_loads or last != 'load'):
            self.sp(it, '%s @ %s' % (last, t.span))
        cell = it.load_ptr(p)
        if not isinstance(cell, Agg) or len(cell.fields) != 1:
            raise Unsupported('atomic op on %r' % (cell,))
        cur = cell.fields[0]
        if last == 'load':
            return cur
        if last == 'store':
            cell.fields[0] = args[1]
            return UNIT
        if last == 'swap':
            cell.fields[0] = args[1]
            return cur
        if last in ('fetch_add', 'fetch_sub', 'fetch_or', 'fetch_and'):
            op = {'fetch_add': 'Add', 'fetch_sub': 'Sub', 'fetch_or': 'BitOr', 'fetch_and': 'BitAnd'}[last]
            cell.fields[0] = it.binop(op, cur, args[1])
            return cur
        if last == 'fetch_update':
            f = args[3]
            r = it.call_value(f, [cur])
            if r.variant == 'Some':
                cell.fields[0] = r.fields[0]
                return Agg('Result', 'Ok', [cur])
            return Agg('Result', 'Err', [cur])
        if last in ('compare_exchange', 'compare_exchange_weak'):
            exp, new = args[1], args[2]
            if isinstance(cur, Ptr) or isinstance(exp, Ptr):
                eq = (cur == exp)
            else:
                eq = it.truth(it.binop('Eq', cur, exp))
            if eq:
                cell.fields[0] = new
                return Agg('Result', 'Ok', [cur])
            return Agg('Result', 'Err', [cur])
        raise Unsupported('atomic ' + last)
