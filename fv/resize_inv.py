"""The protocol invariant (INV) and forward relation (RELY) that C10's rely-guarantee obligations assume about *other*
threads, evaluated on the concrete heap of the interleaving engine after every scheduling step.  If the real code ever
leaves a state outside INV/RELY on an explored schedule the assumption is wrong (or the code is): both are reported.
The formulas mirror fv/props/c10.py (Q4b) one to one."""
from __future__ import annotations
from typing import Any, Dict, Optional
from .modeb import Violation, Sc


def _signed(v: int, bits: int = 64) -> int:
    v &= (1 << bits) - 1
    return v - (1 << bits) if v >> (bits - 1) else v


class ResizeInvariant:
    def __init__(self, it, d0):
        self.it = it
        self.d = d0
        self.first_table = None
        self.prev = None
        self.shift = int(it.eval_const('map::RESIZE_STAMP_SHIFT').v) if hasattr(it, 'eval_const') else 32
        self.stamps: Dict[int, int] = {}
        self.checked = 0

    def stamp(self, n: int) -> int:
        if n not in self.stamps:
            r = self.it.call_fn(self.it.prog.get('map::HashMap::resize_stamp'), [Sc(n, 'usize')])
            self.stamps[n] = _signed(int(r.v) << self.shift)
        return self.stamps[n]

    @staticmethod
    def _len(tbl) -> int:
        return len(tbl.fields[0].ptr.base.val)

    def check(self, where: str):
        d = self.d
        m = d.holder.val
        t = d.table()
        ntp = m.fields[1].fields[0].fields[0]
        nt = None if ntp.base is None else ntp.base.val.fields[1]
        sc = _signed(int(m.fields[4].fields[0].v))
        tl = None if t is None else self._len(t)
        ntl = None if nt is None else self._len(nt)
        self.checked += 1

        def bad(rule, msg):
            raise Violation('mismatch', 'protocol invariant %s does not hold after %s: %s (size_ctl = %d, len(table) = %s, len(next_table) = %s)' % (rule, where, msg, sc, tl, ntl))
        if t is not None and self.first_table is None:
            self.first_table = id(t)
        if tl is not None and (tl & (tl - 1) or tl == 0):
            bad('I1', 'table length is not a power of two')
        G = None
        if sc < -1:
            if tl is None:
                bad('I2', 'size_ctl announces a resize but there is no table')
            cands = [g for g in (tl, tl // 2) if g >= 1 and (sc >> self.shift) == (self.stamp(g) >> self.shift)]
            if not cands:
                bad('I2', 'size_ctl carries the stamp of neither len(table) nor len(table)/2')
            G = cands[0]
            if G != tl and not (sc == self.stamp(G) + 1 and nt is None):
                bad('I2', 'size_ctl carries the previous generation\'s stamp outside the finisher window')
        if sc >= 0 and tl is not None and sc != tl - (tl >> 2):
            bad('I3', 'size_ctl is not 0.75 * len(table)')
        if nt is not None:
            if not (sc < -1 and G == tl and ntl == 2 * tl):
                bad('I4', 'next_table is set although size_ctl does not announce a resize of the current table to twice its length')
        if sc == -1 and t is not None and id(t) != self.first_table:
            bad('I6', 'size_ctl = -1 with a table that is not the first table')
        if self.prev is not None:
            ptl, pG = self.prev
            if ptl is not None and (tl is None or tl < ptl):
                bad('RELY', 'the table got shorter (%s -> %s)' % (ptl, tl))
            if pG is not None and G is not None and G < pG:
                bad('RELY', 'the generation in size_ctl went backwards (%s -> %s)' % (pG, G))
        self.prev = (tl, G)


class WriterPreference:
    """Tree-bin root lock: once a writer has announced that it waits (WAITER bit), no *new* reader may take the read lock
    (readers that arrive then use the lock-free list traversal).  A reader count that grows while WAITER is set lets a stream
    of overlapping readers postpone the writer - which holds the bin lock - forever, although every thread is scheduled
    fairly.  Evaluated after every scheduling step on every tree bin of the current table."""

    def __init__(self, it, d0):
        from .seqcheck import load_cell
        self.load_cell = load_cell
        self.d = d0
        self.waiter = int(it.eval_const('node::WAITER').v)
        self.reader = int(it.eval_const('node::READER').v)
        self.prev: Dict[int, int] = {}
        self.checked = 0

    def check(self, where: str):
        bins = self.d.bins() or []
        self.checked += 1
        for i, b in enumerate(bins):
            if b is None or getattr(b, 'variant', None) != 'Tree':
                continue
            tb = b.fields[0]
            ls = self.load_cell(tb.fields[4])
            cur = int(ls.v)
            p = self.prev.get(id(tb))
            if p is not None and (p & self.waiter) and (cur // self.reader) > (p // self.reader):
                raise Violation('writer-starvation', 'after %s: a reader took the tree read lock of bin %d (lock_state %d -> %d) although a writer had already announced that it waits (WAITER set): '
                                                     'overlapping readers can keep the reader count above zero for ever, the writer - holding the bin lock - is never woken' % (where, i, p, cur))
            self.prev[id(tb)] = cur
