"""Native replay: small Rust programs compiled against /repo's current working tree (path dependency on a scratch
snapshot into which a read-only inspector module is injected; /repo itself is never modified)."""
from __future__ import annotations
import os, shutil, subprocess, time, hashlib
from typing import List, Optional, Tuple, Dict
from . import common as C

INSPECT_RS = os.path.join(C.VERIF, 'native', 'inspect.rs')


def prepared_snapshot(inject_inspector: bool = True) -> str:
    """scratch copy of /repo with the inspector appended to src/map.rs (child module of `map`, so it can read private
    fields without any change to /repo)."""
    snap = os.path.join(C.scratch(), 'repo-native')
    if os.path.exists(snap):
        return snap
    C.snapshot_repo(snap)
    if inject_inspector and os.path.exists(INSPECT_RS):
        with open(os.path.join(snap, 'src', 'map.rs'), 'a') as fh:
            fh.write('\n\n// ---- injected by /verif (scratch copy only) ----\n')
            fh.write(open(INSPECT_RS).read())
        with open(os.path.join(snap, 'src', 'lib.rs'), 'a') as fh:
            fh.write('\n#[doc(hidden)]\npub use map::verif_inspect;\n')
    return snap


def run_program(name: str, main_rs: str, args: List[str] = (), features: Tuple[str, ...] = (), release: bool = False,
                extra_deps: str = '', timeout: int = 600, env: Optional[Dict[str, str]] = None, miri: bool = False,
                inject: bool = True) -> subprocess.CompletedProcess:
    snap = prepared_snapshot(inject)
    d = os.path.join(C.scratch(), 'native-' + name)
    os.makedirs(os.path.join(d, 'src'), exist_ok=True)
    feat = ''
    if features:
        feat = ', features = [%s]' % ', '.join('"%s"' % f for f in features)
    with open(os.path.join(d, 'Cargo.toml'), 'w') as fh:
        fh.write('[package]\nname = "replay_%s"\nversion = "0.0.0"\nedition = "2021"\n\n[workspace]\n\n[dependencies]\n'
                 'flurry = { path = "%s"%s }\nseize = "0.3.3"\n%s\n[profile.dev]\ndebug = 1\n[profile.release]\ndebug-assertions = false\n' % (name, snap, feat, extra_deps))
    lock = os.path.join(snap, 'Cargo.lock')
    if os.path.exists(lock):
        shutil.copy(lock, os.path.join(d, 'Cargo.lock'))
    with open(os.path.join(d, 'src', 'main.rs'), 'w') as fh:
        fh.write(main_rs)
    tgt = os.path.join(C.CACHE, 'target-native' + ('-miri' if miri else ''))
    e = C.cargo_env({'CARGO_TARGET_DIR': tgt})
    if env:
        e.update(env)
    t0 = time.time()
    if miri:
        cmd = ['cargo', '+' + C.NIGHTLY, 'miri', 'run', '--offline', '-q'] + (['--release'] if release else []) + ['--'] + list(args)
        p = subprocess.run(cmd, cwd=d, env=e, stdout=subprocess.PIPE, stderr=subprocess.PIPE, text=True, timeout=timeout)
        if 'error[E' in (p.stderr or '') or 'could not compile' in (p.stderr or ''):
            raise C.BuildError('replay program %s does not compile under miri:\n%s' % (name, p.stderr[-3000:]))
    else:
        b = subprocess.run(['cargo', 'build', '--offline', '-q'] + (['--release'] if release else []), cwd=d, env=e, stdout=subprocess.PIPE, stderr=subprocess.PIPE, text=True, timeout=timeout)
        if b.returncode != 0:
            raise C.BuildError('replay program %s does not compile:\n%s' % (name, b.stderr[-3000:]))
        exe = os.path.join(tgt, 'release' if release else 'debug', 'replay_%s' % name)
        p = subprocess.run([exe] + list(args), cwd=d, env=e, stdout=subprocess.PIPE, stderr=subprocess.PIPE, text=True, timeout=timeout)
    C.log('native %s (%s) rc=%s %.1fs' % (name, 'miri' if miri else ('release' if release else 'dev'), p.returncode, time.time() - t0))
    return p
