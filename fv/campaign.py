"""Scenario campaigns for the mode-B properties: scenario sets per property and tier, run in parallel, findings
classified by the property that owns them, native replay of a finding's concrete model."""
from __future__ import annotations
import itertools, json, multiprocessing as mp, os, re, time
from typing import Any, Dict, List, Optional, Tuple
import z3
from . import common as C
from .mirpath import Program
from .seqcheck import Scenario, Runner, Finding

# which property owns which kind of finding
OWNER = {
    'use-after-free': 'C03', 'double-free': 'C03', 'retire-null': 'C03', 'retire-freed': 'C03', 'double-retire': 'C03', 'dropped-under-guard': 'C03',
    'null-deref': 'C03', 'bad-downcast': 'C03', 'out-of-bounds': 'C03',
    'leak': 'C04', 'double-drop': 'C04',
    'self-deadlock': 'C11', 'two-locks': 'C11', 'would-block': 'C11',
    'unreachable': 'C02', 'abort': 'C18', 'panic': 'C02', 'switch': 'C02',
}


def owner_of(f: Finding, default: str) -> str:
    if default in ('C13', 'C18', 'C10', 'C06', 'C07'):
        return default        # dedicated scenario sets: every functional discrepancy there belongs to that property
    if f.kind == 'mismatch':
        w = f.what
        if 'tree lookup cost' in w or 'quiescence: tree' in w or 'black height' in w or 'red node' in w or 'red root' in w or 'traversal list' in w or 'bin is a tree' in w or 'is a tree but the table' in w:
            return 'C06'
        if 'quiescence:' in w or 'table length went' in w or 'table shrank' in w:
            if 'size_ctl' in w or 'next_table' in w or 'table length' in w or 'shrank' in w:
                return 'C10' if default == 'C10' else 'C05'
            return 'C05'
        if default in ('C02', 'C05') :
            return default        # every functional discrepancy of a sequential script contradicts C02, and C05 where it concerns iteration / len / placement
        if 'retain' in w:
            return 'C13'
        if 'compute_if_present' in w:
            return 'C08' if default == 'C08' else 'C02'
        if 'by unwinding' in w or 'panicked (injected)' in w:
            return 'C18'
        if 'refused value' in w:
            return 'C04'
        return 'C02'
    if default == 'C04' and f.kind in ('use-after-free', 'double-free') and ('from_raw of freed' in f.what or 'twice' in f.what or 'dropped after it was freed' in f.what):
        return 'C04'          # freeing / dropping the same object a second time contradicts "dropped exactly once" as well as C03
    return OWNER.get(f.kind, default)


# ---------------------------------------------------------------------------------------------
# scenario sets
# ---------------------------------------------------------------------------------------------

ALPHA_FULL = ['insert', 'try_insert', 'get', 'get_key_value', 'contains_key', 'remove', 'remove_entry', 'compute_some', 'compute_none',
              'retain', 'retain_force', 'clear', 'len']
ALPHA_CORE = ['insert', 'try_insert', 'get_key_value', 'remove_entry', 'compute_some', 'compute_none', 'retain', 'clear']


def op_with_key(name: str, keyvar: int):
    if name in ('retain', 'retain_force', 'retain_replace', 'retain_force_replace', 'retain_replace_grow', 'retain_force_replace_grow', 'clear', 'len'):
        return (name,)
    return (name, keyvar)


def pair_scripts(alpha: List[str], prefix_inserts: int = 2) -> List[List[Tuple]]:
    out = []
    for a, b in itertools.product(alpha, repeat=2):
        ops = [('insert', i) for i in range(prefix_inserts)]
        ops += [op_with_key(a, prefix_inserts), op_with_key(b, prefix_inserts + 1)]
        out.append(ops)
    return out


def triple_scripts(alpha: List[str]) -> List[List[Tuple]]:
    out = []
    for a, b, c in itertools.product(alpha, repeat=3):
        ops = [('insert', 0), op_with_key(a, 1), op_with_key(b, 2), op_with_key(c, 3)]
        out.append(ops)
    return out


def scenarios_for(prop: str, tier: str, seed: int = 0) -> List[Scenario]:
    S: List[Scenario] = []
    thorough = tier == 'thorough'

    def add(name, **kw):
        S.append(Scenario(name, **kw))
        return S[-1]

    if prop in ('C02', 'C04', 'C05', 'C03'):
        alpha = ALPHA_FULL if (prop == 'C02' or thorough) else ALPHA_CORE
        configs = [('identity', 1, 'guard'), ('const', 1, 'ref')]
        if thorough:
            configs += [('identity', None, 'ref'), ('highbits', 2, 'guard'), ('samebin', 3, 'ref'), ('const', 0, 'guard')]
        for hasher, cap, facade in configs:
            for i, ops in enumerate(pair_scripts(alpha)):
                add('%s/cap%s/%s/pair%d' % (hasher, cap, facade, i), hasher=hasher, capacity=cap, facade=facade, ops=ops, universe=3,
                    check_each_step=thorough)
        # an arbitrary hash function of the key (values 0..3: bin parity and split bit free), universe of 2 keys
        sym_alpha = ['insert', 'remove_entry', 'compute_none', 'get_key_value'] if not thorough else ALPHA_CORE
        for i, (a, b) in enumerate(itertools.product(sym_alpha, repeat=2)):
            ops = [('insert', 0), op_with_key(a, 1), op_with_key(b, 2)]
            add('symbolic/cap1/guard/pair%d' % i, hasher='symbolic', capacity=1, facade='guard', ops=ops, universe=2)
        if thorough:
            for i, ops in enumerate(triple_scripts(ALPHA_CORE)):
                add('identity/cap1/guard/triple%d' % i, hasher='identity', capacity=1, facade='guard', ops=ops, universe=4)
        if prop == 'C02':
            for hasher, cap in (('identity', 1), ('const', 1)):
                add('%s/cap%s/extend-clone-index' % (hasher, cap), hasher=hasher, capacity=cap, ops=[('insert', 0), ('extend', 1, 2, 0), ('clone_eq',), ('index', 3), ('remove', 1), ('extend', 3, 3), ('clone_eq',), ('len',)], universe=3)
            for hasher in ('identity', 'const'):
                add('%s/sets/relations' % hasher, hasher=hasher, ops=[('sinsert', 'A', 0), ('sinsert', 'A', 1), ('sinsert', 'B', 2), ('sinsert', 'B', 0), ('srelations',), ('sremove', 'A', 3), ('stake', 'B', 1),
                                                                 ('sget', 'A', 2), ('scontains', 'B', 3), ('srelations',)], universe=3)
            add('samebin/tree/extend-clone', hasher='samebin', capacity=40, prefill=list(range(10)), ops=[('extend', 0, ('c', 3)), ('clone_eq',), ('index', 1)], universe=12)
        for first in (('reserve', ('c', 3)), ('reserve', ('c', 8)), ('extend', 0, 1, 2)):
            add('identity/fresh/%s-first' % first[0] + str(first[1] if first[0] == 'reserve' else ''), hasher='identity', capacity=None, ops=[first, ('insert', 0), ('insert', 1), ('insert', 2), ('insert', ('c', 9)), ('insert', ('c', 10)), ('get', 3)], universe=4,
                check_each_step=True)
        for kind in ('retain_replace', 'retain_force_replace'):
            add('const/cap1/guard/%s' % kind, hasher='const', capacity=1, ops=[('insert', 0), ('insert', 1), (kind,), ('get', 2)], universe=3)
        # longer scripts that cross two resizes, with guard refresh in between (reclamation really happens mid-script)
        long_ops = [('insert', 0), ('insert', 1), ('insert', 2), ('repin',), ('remove', 3), ('insert', 4), ('compute_none', 1), ('repin',), ('get', 2), ('insert', 0)]
        add('identity/cap1/guard/long', hasher='identity', capacity=1, ops=long_ops, universe=3)
        add('const/cap1/ref/long', hasher='const', capacity=1, facade='ref', ops=long_ops, universe=4)
        # tree bins: 64-bin table, 10 colliding keys, then symbolic operations (treeify -> tree ops -> untreeify)
        for hasher in ('samebin', 'const'):
            pre = list(range(10))
            tree_ops = [[('insert', 0), ('remove', 1)], [('compute_none', 0), ('try_insert', 1)], [('remove_entry', 0), ('get_key_value', 1)],
                        [('remove', ('c', 0)), ('remove', ('c', 1)), ('remove', ('c', 2)), ('remove', 0), ('get', 1)], [('clear',), ('insert', 0)], [('retain',), ('insert', 0)],
                        [('compute_some', 0), ('get', 1)], [('retain_replace',), ('get', 0)], [('retain_force_replace',), ('get', 0)]]
            if thorough:
                tree_ops += [[('insert', 0), ('remove', 1), ('compute_some', 2)], [('compute_some', 0), ('remove', 0), ('remove', 1), ('remove', 2)]]
            tree_ops += [[('clear',), ('len',), ('insert', 0), ('len',)]]
            if prop == 'C03':
                # a reference handed out under the guard must survive whatever is done to that entry afterwards (tree-bin arms)
                tree_ops += [[('get', 0), ('compute_some', 1)], [('get_key_value', 0), ('insert', 1)], [('get', 0), ('remove', 1)], [('get', 0), ('compute_none', 1), ('insert', 0)], [('get', 0), ('clear',)]]
            for i, ops in enumerate(tree_ops):
                add('%s/tree/cap40/%d' % (hasher, i), hasher=hasher, capacity=40, prefill=pre, ops=ops, universe=12, retain_rest=(hasher == 'const'))
            # a tree bin that has shrunk (without being untreeified) is moved by a resize: all nodes on one side / split
            for j, victims in enumerate(([10, 9, 8, 7], [10, 9, 8, 7, 6], [0, 1, 2, 3], [0, 1, 2, 3, 4], [5, 4, 6, 3, 7])):
                ops = [('remove', ('c', v)) for v in victims] + [('reserve', ('c', 100)), ('get', 0), ('insert', 1)]
                add('%s/tree/shrunk-then-resized/%d' % (hasher, j), hasher=hasher, capacity=40, prefill=list(range(11)), ops=ops, universe=12)
        # partial collisions: four full hashes in one tree bin, several keys per hash (the tree is ordered by (hash, key): lookups
        # must keep using the hash below an equal-hash node)
        for i, ops in enumerate([[('insert', 0), ('remove', 1)], [('get', 0), ('get_key_value', 1)], [('compute_some', 0), ('remove_entry', 1)], [('try_insert', 0), ('contains_key', 1)]]):
            add('mixed/tree/cap40/%d' % i, hasher='mixed', capacity=40, prefill=[0, 5, 10, 15, 1, 6, 11, 12, 2, 7, 13, 3], ops=ops, universe=16)
        # a tree bin whose entries ALL carry the new-table bit (moves as a whole to bin i+n; the old TreeBin is reused) / none does
        add('split/tree/all-high', hasher='split', capacity=40, prefill=[1, 3, 5, 7, 9, 11, 13, 15, 17, 19], ops=[('reserve', ('c', 100)), ('get', 0), ('remove', 1)], universe=20)
        add('twohash/tree/split', hasher='twohash', capacity=40, prefill=list(range(12)), ops=[('reserve', ('c', 100)), ('get', 0), ('remove', ('c', 1)), ('get', ('c', 3)), ('insert', ('c', 1))], universe=13)
        add('split/tree/all-low', hasher='split', capacity=40, prefill=[0, 2, 4, 6, 8, 10, 12, 14, 16, 18], ops=[('reserve', ('c', 100)), ('get', 0), ('remove', 1)], universe=20)
        # tree bins split by a resize into two halves (keys collide in 64 bins, differ in bit 6)
        add('split/tree/split', hasher='split', capacity=40, prefill=list(range(12)), ops=[('reserve', ('c', 100)), ('get', 0), ('remove', 1)], universe=13)
    if prop in ('C03', 'C04', 'C02'):
        # bulk construction: collect() with every lower size hint, colliding and spread keys (crosses one or two resizes)
        for hasher in ('identity', 'const'):
            for n_items in ((3, 4) if not thorough else (2, 3, 4, 5)):
                for hint in range(0, n_items):
                    add('%s/collect%d/hint%d' % (hasher, n_items, hint), hasher=hasher, bulk=('collect', n_items, hint), ops=[('get', n_items)], universe=3)
    if prop == 'C06':
        # insertion/removal orders over colliding keys: equal hashes and same-bin/different-hash; even keys are prefilled
        # (the bin is built by treeification), the symbolic keys range over stored and absent (odd) keys
        for hasher in ('const', 'samebin', 'mixed'):
            for n_pre in ((9,) if not thorough else ((9, 10, 11, 12, 14) if hasher != 'mixed' else (9, 12))):
                pre = list(range(0, 2 * n_pre, 2))
                uni = 2 * n_pre + 1
                scripts = {'ins-ins': [('insert', 0), ('insert', 1)], 'rem-rem': [('remove', 0), ('remove', 1)], 'ins-rem': [('insert', 0), ('remove', 1)]}
                if hasher == 'mixed' and not thorough:
                    scripts = {'ins-rem': [('insert', 0), ('remove', 1)], 'rem-rem': [('remove', 0), ('remove', 1)]}
                if thorough and n_pre == 9:
                    scripts.update({'ins-ins-ins': [('insert', 0), ('insert', 1), ('insert', 2)], 'rem-ins-rem': [('remove', 0), ('insert', 1), ('remove', 2)]})
                for nm, ops in scripts.items():
                    add('%s/tree%d/%s' % (hasher, n_pre, nm), hasher=hasher, capacity=40, prefill=pre, ops=ops, universe=uni, check_each_step=True)
            # descending / shuffled build orders through inserts into an existing small tree
            add('%s/tree9/desc' % hasher, hasher=hasher, capacity=40, prefill=[40, 38, 36, 34, 32, 30, 28, 26, 24], ops=[('insert', 0), ('insert', 1)], universe=42, check_each_step=True) if thorough else None
            # shrink to the untreeify threshold and below
            add('%s/tree9/shrink' % hasher, hasher=hasher, capacity=40, prefill=list(range(0, 18, 2)),
                ops=[('remove', ('c', 0)), ('remove', ('c', 16)), ('remove', 0), ('remove', 1), ('insert', 2)], universe=17, check_each_step=True)
        # a large bin (48 entries with one full hash): only here does O(log n) differ from O(n) by more than the constant in the bound
        add('const/tree48/lookup-cost', hasher='const', capacity=40, prefill=list(range(48)), ops=[('remove', ('c', 0)), ('insert', ('c', 60)), ('remove', ('c', 31)), ('get', 0)], universe=61)
        # a tree bin split by a resize (64 -> 128 -> 256): both halves are rebuilt (tree or list)
        add('split/treesplit', hasher='split', capacity=40, prefill=list(range(14)), ops=[('reserve', ('c', 40)), ('insert', 0), ('remove', 1)], universe=15, check_each_step=thorough)
        add('split/treesplit2', hasher='split', capacity=40, prefill=[0, 2, 4, 6, 8, 10, 12, 14, 16, 18, 1], ops=[('reserve', ('c', 40)), ('get', 0)], universe=20, check_each_step=True)
        S[:] = [x for x in S if x is not None]
    if prop == 'C13':
        for facade in ('guard', 'ref'):
            for hasher, cap in (('identity', 1), ('const', 1), ('symbolic', 1)):
                if hasher == 'symbolic' and facade == 'ref' and not thorough:
                    continue
                for kind in ('retain', 'retain_force', 'retain_replace', 'retain_force_replace'):
                    add('%s/cap%s/%s/%s' % (hasher, cap, facade, kind), hasher=hasher, capacity=cap, facade=facade,
                        ops=[('insert', 0), ('insert', 1), ('insert', 2), (kind,), ('get', 3)], universe=3 if hasher != 'symbolic' else 2)
            for hasher in ('identity', 'const'):
                for kind in ('retain_replace_grow', 'retain_force_replace_grow'):
                    add('%s/cap1/%s/%s' % (hasher, facade, kind), hasher=hasher, capacity=1, facade=facade, ops=[('insert', 0), ('insert', 1), ('insert', 2), (kind,), ('get', 3)], universe=3)
            for hasher in ('samebin', 'const'):
                for kind in ('retain', 'retain_force', 'retain_replace', 'retain_force_replace'):
                    add('%s/tree/%s/%s' % (hasher, facade, kind), hasher=hasher, capacity=40, facade=facade, prefill=list(range(10)), ops=[(kind,), ('get', 0)], universe=11,
                        retain_rest=(kind == 'retain'))
    if prop == 'C18':
        for hasher, cap, pre in (('identity', 1, []), ('const', 1, []), ('samebin', 40, list(range(10)))):
            n_entries = 3 if not pre else 10
            base = [('insert', 0), ('insert', 1), ('insert', 2)] if not pre else []
            uni = 3 if not pre else 11
            for op in ('compute_some', 'compute_none'):
                add('%s/%s/panic1' % (hasher, op), hasher=hasher, capacity=cap, prefill=pre, ops=base + [(op, 0), ('insert', 1), ('remove', 2)], universe=uni, panic_at=1)
                # ... and the same kind of operation again from the same thread, on the same and on other keys of the bin
                add('%s/%s/panic1-then-again' % (hasher, op), hasher=hasher, capacity=cap, prefill=pre, ops=base + [(op, 0), ('compute_some', 1), ('compute_none', 0), ('get', 1)], universe=uni, panic_at=1)
            for op in ('retain', 'retain_force'):
                for i in (range(1, n_entries + 1) if (thorough or not pre) else (1, 2, 5, 10)):
                    add('%s/%s/panic%d' % (hasher, op, i), hasher=hasher, capacity=cap, prefill=pre, ops=base + [(op,), ('insert', 1), ('remove', 2)], universe=uni, panic_at=i)
    if prop == 'C07':
        # iteration interleaved with completed operations (one or two whole resizes, removals, replacements, tree conversions)
        for hasher, cap in (('identity', 1), ('const', 1), ('symbolic', 1)) + ((('highbits', 1), ('identity', 2)) if thorough else ()):
            uni = 3 if hasher != 'symbolic' else 2
            for j in (0, 1, 2):
                ops = [('insert', 0), ('insert', 1), ('iter_new',), ('iter_next', ('c', j)), ('insert', 2), ('insert', 3), ('remove', 0), ('insert', 4), ('iter_drain',)]
                if hasher == 'symbolic':
                    ops = [('insert', 0), ('iter_new',), ('iter_next', ('c', min(j, 1))), ('insert', 1), ('insert', 2), ('iter_drain',)]
                add('%s/cap%s/next%d-then-grow' % (hasher, cap, j), hasher=hasher, capacity=cap, ops=ops, universe=uni)
        # identity hash, concrete keys: the iterator is created in a 2-bin table and advanced after 1, 2 and 3 doublings
        for grow in (2, 4, 7):
            ops = [('insert', ('c', 0)), ('insert', ('c', 1)), ('iter_new',)] + [('insert', ('c', 2 + i)) for i in range(grow)] + [('iter_next', ('c', 1)), ('insert', ('c', 20)), ('remove', 0), ('iter_drain',)]
            add('identity/cap1/created-before-%d-inserts' % grow, hasher='identity', capacity=1, ops=ops, universe=4)
        # a tree bin is converted to a list (and the table resized) while the iterator stands inside it
        add('samebin/tree/untreeify-under-iterator', hasher='samebin', capacity=40, prefill=list(range(10)),
            ops=[('iter_new',), ('iter_next', ('c', 3)), ('remove', ('c', 9)), ('remove', ('c', 8)), ('remove', ('c', 7)), ('remove', 0), ('remove', 1), ('iter_drain',)], universe=10)
        # a list bin is treeified (and later its nodes removed) while the iterator stands inside it
        for hasher in ('samebin', 'const'):
            for j in (1, 3):
                add('%s/list/treeify-under-iterator/next%d' % (hasher, j), hasher=hasher, capacity=40, prefill=list(range(7)),
                    ops=[('iter_new',), ('iter_next', ('c', j)), ('insert', ('c', 7)), ('insert', ('c', 8)), ('insert', 0), ('iter_drain',)], universe=10)
            add('%s/list/remove-under-iterator' % hasher, hasher=hasher, capacity=40, prefill=list(range(5)),
                ops=[('iter_new',), ('iter_next', ('c', 2)), ('remove', 0), ('remove', 1), ('iter_drain',)], universe=5)
        add('split/tree/split-under-iterator', hasher='split', capacity=40, prefill=list(range(12)),
            ops=[('iter_new',), ('iter_next', ('c', 2)), ('reserve', ('c', 40)), ('remove', 0), ('iter_drain',)], universe=12)
    if prop == 'C10':
        # single-thread end-to-end resizes: thresholds crossed by inserts and by reserve, from several initial lengths
        for cap in (1, 2, 3):
            add('identity/cap%d/grow' % cap, hasher='identity', capacity=cap, ops=[('insert', ('c', i)) for i in range(5)] + [('insert', 0), ('insert', 1), ('insert', ('c', 40)), ('insert', ('c', 41)), ('remove', 0), ('len',)],
                universe=8, check_each_step=True)
        add('symbolic/cap1/grow', hasher='symbolic', capacity=1, ops=[('insert', 0), ('insert', 1), ('insert', 2)], universe=3, check_each_step=True)
        add('identity/reserve', hasher='identity', capacity=1, ops=[('insert', 0), ('reserve', ('c', 20)), ('insert', 1), ('reserve', ('c', 100)), ('insert', 2)], universe=3, check_each_step=True)
        add('samebin/tree/reserve', hasher='samebin', capacity=40, prefill=list(range(10)), ops=[('reserve', ('c', 200)), ('get', 0)], universe=11, check_each_step=True)
        add('split/treesplit/reserve', hasher='split', capacity=40, prefill=list(range(12)), ops=[('reserve', ('c', 100)), ('get', 0)], universe=13, check_each_step=True)
    return S


# ---------------------------------------------------------------------------------------------
# parallel execution
# ---------------------------------------------------------------------------------------------

_PROG = None


def _init():
    global _PROG
    _PROG = Program(C.mir_functions())


def _work(sc: Scenario):
    global _PROG
    if _PROG is None:
        _init()
    t0 = time.time()
    try:
        r = Runner(_PROG, sc, max_paths=int(os.environ.get('VERIF_MAX_PATHS', '6000'))).run()
        return {'name': sc.name, 'paths': r.paths, 'steps': r.steps, 'queries': r.queries, 'covered': r.covered, 'findings': r.findings,
                'modelled': r.modelled, 'executed': r.executed, 'stats': r.stats, 'cmp_max': r.cmp_max, 'cmp_absent_max': getattr(r, 'cmp_absent_max', 0), 'samples': r.samples, 'time': time.time() - t0, 'error': None}
    except C.Inconclusive as e:
        return {'name': sc.name, 'error': 'inconclusive: %s' % e, 'time': time.time() - t0}
    except Exception as e:   # Unsupported etc.
        import traceback
        return {'name': sc.name, 'error': '%s: %s' % (type(e).__name__, str(e)[:400]), 'time': time.time() - t0, 'tb': traceback.format_exc()[-1500:]}


def run_scenarios(scs: List[Scenario], jobs: Optional[int] = None) -> List[Dict[str, Any]]:
    C.mir_functions()        # make sure the cache exists before forking
    jobs = jobs or min(16, os.cpu_count() or 4)
    if len(scs) <= 2 or jobs == 1:
        return [_work(s) for s in scs]
    ctx = mp.get_context('fork')
    with ctx.Pool(jobs, initializer=_init) as pool:
        return list(pool.imap_unordered(_work, scs, chunksize=1))


def summarize(chk: C.Check, prop: str, results: List[Dict[str, Any]], scs: List[Scenario]):
    """fills coverage of `chk`; returns (own findings, foreign findings)"""
    paths = sum(r.get('paths', 0) for r in results)
    steps = sum(r.get('steps', 0) for r in results)
    queries = sum(r.get('queries', 0) for r in results)
    errors = [r for r in results if r.get('error')]
    chk.coverage['slowest_scenarios'] = [(r['name'], round(r.get('time', 0), 1)) for r in sorted(results, key=lambda r: -r.get('time', 0))[:5]]
    uncovered = [r['name'] for r in results if not r.get('error') and not r.get('covered')]
    modelled: Dict[str, int] = {}
    executed: Dict[str, int] = {}
    stats: Dict[str, int] = {}
    for r in results:
        for k, v in (r.get('modelled') or {}).items():
            modelled[k] = modelled.get(k, 0) + v
        for k, v in (r.get('executed') or {}).items():
            executed[k] = executed.get(k, 0) + v
        for k, v in (r.get('stats') or {}).items():
            stats[k] = max(stats.get(k, 0), v) if k == 'max_bins' else stats.get(k, 0) + v
    C.STATS.queries += queries
    own, foreign = [], []
    for r in results:
        for f in r.get('findings') or []:
            (own if owner_of(f, prop) == prop else foreign).append(f)
    chk.coverage.update({
        'states': max(paths, 1), 'transitions': max(steps, 1), 'scenarios': len(scs), 'paths_explored': paths, 'mir_statements_executed': steps,
        'solver_queries': queries, 'path_conditions_cover_input_space': not uncovered,
        'functions_executed_from_mir': len(executed), 'modelled_callees': sorted(modelled, key=lambda k: -modelled[k])[:60],
        'heap_shapes': stats, 'cmp_max_per_lookup': max([r.get('cmp_max', 0) for r in results] + [0]),
        'findings_owned_by_other_properties': ['%s: %s: %s' % (owner_of(f, prop), f.scenario, f.what[:160]) for f in foreign[:10]],
        'exhaustive': not uncovered and not errors,
    })
    for r in results:
        for s in r.get('samples') or []:
            chk.sample(s)
    for name in sorted(executed, key=lambda k: -executed[k])[:80]:
        chk.functions_encoded[name] = 'mir'
    for r in errors:
        chk.inconclusive.append('scenario %s: %s' % (r['name'], r['error']))
    for u in uncovered:
        chk.inconclusive.append('scenario %s: explored path conditions do not cover the input space' % u)
    return own, foreign
