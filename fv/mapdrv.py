"""Driver: runs flurry's public API through the concrete-heap interpreter (mode B) and decodes results."""
from __future__ import annotations
from typing import Any, List, Optional, Tuple, Callable
import z3
from .modeb import (Interp, Sc, Agg, Ptr, Holder, Tok, Opaque, UNIT, Unwind, Violation, Unsupported, GuardV, CollectorV, NULL, to_z3)


class PyClosure:
    """a user closure implemented in python (the harness's remapping functions and predicates)"""

    def __init__(self, f):
        self.f = f

    def __call__(self, it, *args):
        return self.f(it, *args)


class MapDriver:
    def __init__(self, it: Interp, capacity: Optional[int] = None, facade: str = 'guard', mapval=None):
        self.it = it
        self.prog = it.prog
        self.facade = facade
        if mapval is not None:
            m = mapval
        elif capacity is None:
            m = it.call_fn(self.prog.get('map::HashMap::with_hasher'), [Opaque('S')])
        else:
            m = it.call_fn(self.prog.get('map::HashMap::with_capacity_and_hasher'), [Sc(capacity, 'usize'), Opaque('S')])
        self.holder = Holder(m)
        self.mref = Ptr(self.holder, ())
        self.guard_holder: Optional[Holder] = None
        self.gref: Optional[Ptr] = None
        self.dropped = False

    # ---- guards ---------------------------------------------------------------------
    def pin(self):
        g = self.it.call_fn(self.prog.get('map::HashMap::guard'), [self.mref])
        self.guard_holder = Holder(g)
        self.gref = Ptr(self.guard_holder, ())
        return self.gref

    def unpin(self):
        if self.guard_holder is not None:
            self.it.drop_value(self.guard_holder.val, 'guard drop by harness')
            self.guard_holder = None
            self.gref = None

    def fn(self, name):
        return self.prog.get(name)

    def keyref(self, k: Tok) -> Ptr:
        return Ptr(Holder(k), ())

    # ---- decoding -------------------------------------------------------------------
    def opt_ref(self, r) -> Optional[Any]:
        if r.variant == 'None':
            return None
        return self.it.load_ptr(r.fields[0])

    def opt_pair(self, r) -> Optional[Tuple[Any, Any]]:
        if r.variant == 'None':
            return None
        t = r.fields[0]
        return (self.it.load_ptr(t.fields[0]), self.it.load_ptr(t.fields[1]))

    # ---- operations (guard-passing facade; the wrapper facade goes through map_ref's MIR) ----
    def call(self, method: str, args: List[Any]):
        if self.facade == 'guard':
            return self.it.call_fn(self.fn('map::HashMap::' + method), [self.mref] + args + [self.gref])
        # HashMapRef facade: build the wrapper with with_guard and call its method
        w = self.it.call_fn(self.fn('map_ref::HashMap::with_guard'), [self.mref, self.gref])
        h = Holder(w)
        return self.it.call_fn(self.fn('map_ref::HashMapRef::' + method), [Ptr(h, ())] + args)

    def insert(self, k: Tok, v: Tok):
        return self.opt_ref(self.call('insert', [k, v]))

    def try_insert(self, k: Tok, v: Tok):
        r = self.call('try_insert', [k, v])
        if r.variant == 'Ok':
            return ('ok', self.it.load_ptr(r.fields[0]))
        e = r.fields[0]
        return ('err', self.it.load_ptr(e.fields[0]), e.fields[1])

    def get(self, k: Tok):
        return self.opt_ref(self.call('get', [self.keyref(k)]))

    def get_key_value(self, k: Tok):
        return self.opt_pair(self.call('get_key_value', [self.keyref(k)]))

    def contains_key(self, k: Tok):
        return self.call('contains_key', [self.keyref(k)])

    def remove(self, k: Tok):
        return self.opt_ref(self.call('remove', [self.keyref(k)]))

    def remove_entry(self, k: Tok):
        return self.opt_pair(self.call('remove_entry', [self.keyref(k)]))

    def compute_if_present(self, k: Tok, f: Callable):
        return self.opt_ref(self.call('compute_if_present', [self.keyref(k), PyClosure(f)]))

    def retain(self, f: Callable, force=False):
        return self.call('retain_force' if force else 'retain', [PyClosure(f)])

    def clear(self):
        return self.call('clear', [])

    def reserve(self, n: int):
        return self.call('reserve', [Sc(n, 'usize')])

    def len(self) -> Sc:
        return self.it.call_fn(self.fn('map::HashMap::len'), [self.mref])

    def is_empty(self) -> Sc:
        return self.it.call_fn(self.fn('map::HashMap::is_empty'), [self.mref])

    def iter_all(self, which='iter') -> List[Any]:
        itv = self.it.call_fn(self.fn('map::HashMap::' + which), [self.mref, self.gref])
        h = Holder(itv)
        nxt = {'iter': '<iter::Iter as Iterator>::next', 'keys': '<iter::Keys as Iterator>::next', 'values': '<iter::Values as Iterator>::next'}[which]
        out = []
        for _ in range(100000):
            r = self.it.call_fn(self.fn(nxt), [Ptr(h, ())])
            if r.variant == 'None':
                break
            x = r.fields[0]
            if which == 'iter':
                out.append((self.it.load_ptr(x.fields[0]), self.it.load_ptr(x.fields[1])))
            else:
                out.append(self.it.load_ptr(x))
        self.it.drop_value(h.val, 'iterator drop')
        return out

    def drop_map(self):
        self.dropped = True
        self.it.drop_value(self.holder.val, 'drop(map)')

    # ---- inspection of the concrete heap (oracle side, python) --------------------------
    def table(self):
        m = self.holder.val
        tp = m.fields[0].fields[0].fields[0]    # HashMap.table: reclaim::Atomic(AtomicPtr(ptr))
        if tp.base is None:
            return None
        linked = tp.base.val                  # Linked<Table>
        return linked.fields[1]

    def cells(self):
        m = self.holder.val
        return {'transfer_index': m.fields[2].fields[0], 'count': m.fields[3].fields[0], 'size_ctl': m.fields[4].fields[0],
                'next_table_null': m.fields[1].fields[0].fields[0].base is None}

    def bins(self) -> Optional[List[Any]]:
        t = self.table()
        if t is None:
            return None
        box = t.fields[0]
        arr = box.ptr.base.val
        out = []
        for cell in arr:
            p = cell.fields[0].fields[0]
            out.append(None if p.base is None else p.base.val.fields[1])   # BinEntry
        return out


class PyIter:
    """harness iterator handed to FromIterator / Extend: yields (key, value) token pairs, reports a chosen lower size hint"""

    def __init__(self, items, lower_hint: int):
        self.items = list(items)
        self.pos = 0
        self.lower = lower_hint

    def next(self):
        if self.pos >= len(self.items):
            return Agg('Option', 'None', [])
        k, v = self.items[self.pos]
        self.pos += 1
        return Agg('Option', 'Some', [Agg('tuple', None, [k, v])])

    def size_hint(self):
        rest = len(self.items) - self.pos
        lo = min(self.lower, rest)
        return Agg('tuple', None, [Sc(lo, 'usize'), Agg('Option', 'Some', [Sc(rest, 'usize')])])
