"""sigsmt: lifetime and trait-bound constraints of the public API, read from rustdoc's JSON of the current tree,
decided by z3, with rustc as the replay oracle.

C17 (trait bounds): the where-predicates of the impl block and of the method are Horn facts `K: Send`, ...; the query
asks whether  not(K: Send /\ K: Sync /\ V: Send /\ V: Sync)  is consistent with them for each inserting entry point.

C16 (lifetimes): a small region-constraint system per signature.  Every lifetime that occurs in the signature (named,
elided, or the caller-side borrow of an argument) gets one Boolean "still live at the use of the result, which comes
after event E", with E in {guard dropped, guard refreshed, map dropped, wrapper dropped}.  Reference and (covariant)
type-argument subtyping, elision, `'a: 'b` predicates and well-formedness give implications between them; E kills the
caller-side borrows of the object it invalidates; the result's lifetimes must be live.  `sat` = the signature admits a
use-after-E program; the program is then generated and given to rustc against the real crate.
"""
from __future__ import annotations
import json, os, re, shutil, subprocess, time
from dataclasses import dataclass, field
from typing import Any, Dict, List, Optional, Tuple, Set
import z3
from . import common as C

OWNERS = ('HashMap', 'HashSet', 'HashMapRef', 'HashSetRef')
ITER_TYPES = ('Iter', 'Keys', 'Values')
INSERT_TRAITS = ('Extend', 'FromIterator', 'Clone', 'Deserialize', 'FromParallelIterator', 'ParallelExtend')


@dataclass
class Api:
    owner: str                  # HashMap / HashSet / HashMapRef / HashSetRef
    for_ref: bool               # impl ... for &Owner
    trait: Optional[str]
    trait_args: Any
    name: str
    vis: str
    impl_generics: Any
    fn: Any                     # the 'function' JSON
    impl_for: Any
    impl_id: str = ''

    @property
    def key(self):
        t = ('<%s%s as %s>::' % ('&' if self.for_ref else '', self.owner, self.trait)) if self.trait else (self.owner + '::')
        return t + self.name


def load_api(j) -> List[Api]:
    idx = j['index']
    out: List[Api] = []
    seen: Set[str] = set()
    owners = {}
    for k, v in idx.items():
        inner = v.get('inner', {})
        if 'struct' in inner and v.get('name') in OWNERS + ITER_TYPES + ('TryInsertError',) and v.get('crate_id', 0) == 0:
            owners[v['name']] = v
    for oname, v in owners.items():
        for i in v['inner']['struct']['impls']:
            imp = idx.get(str(i))
            if not imp:
                continue
            im = imp['inner']['impl']
            if im.get('is_synthetic') or im.get('blanket_impl'):
                continue
            fr = im['for']
            for_ref = 'borrowed_ref' in fr
            base = fr['borrowed_ref']['type'] if for_ref else fr
            if 'resolved_path' not in base:
                continue
            bname = base['resolved_path']['path'].split('::')[-1]
            if bname != oname:
                continue   # e.g. `impl PartialEq<HashMapRef> for HashMap` is listed under both
            tr = im['trait']
            for it in im['items']:
                f = idx.get(str(it))
                if not f or 'function' not in f['inner']:
                    continue
                uid = '%s/%s' % (i, it)
                if uid in seen:
                    continue
                seen.add(uid)
                vis = f['visibility'] if isinstance(f['visibility'], str) else 'restricted'
                if tr is not None:
                    vis = 'public'
                out.append(Api(bname, for_ref, tr['path'].split('::')[-1] if tr else None, tr['args'] if tr else None, f['name'], vis,
                               im['generics'], f['inner']['function'], fr, str(i)))
    return out


# ---------------------------------------------------------------------------------------------
# type helpers
# ---------------------------------------------------------------------------------------------

def ty_str(t) -> str:
    if t is None:
        return '()'
    if 'generic' in t:
        return t['generic']
    if 'primitive' in t:
        return t['primitive']
    if 'borrowed_ref' in t:
        b = t['borrowed_ref']
        return '&%s%s%s' % ((b['lifetime'] + ' ') if b['lifetime'] else '', 'mut ' if b['is_mutable'] else '', ty_str(b['type']))
    if 'resolved_path' in t:
        p = t['resolved_path']
        args = p.get('args')
        s = p['path']
        if args and 'angle_bracketed' in args and args['angle_bracketed']['args']:
            s += '<' + ', '.join(arg_str(a) for a in args['angle_bracketed']['args']) + '>'
        return s
    if 'tuple' in t:
        return '(' + ', '.join(ty_str(x) for x in t['tuple']) + ')'
    if 'impl_trait' in t:
        return 'impl ' + ' + '.join(bound_str(b) for b in t['impl_trait'])
    if 'qualified_path' in t:
        q = t['qualified_path']
        return '<%s as %s>::%s' % (ty_str(q['self_type']), q['trait']['path'] if q.get('trait') else '_', q['name'])
    if 'slice' in t:
        return '[%s]' % ty_str(t['slice'])
    if 'raw_pointer' in t:
        return '*' + ty_str(t['raw_pointer']['type'])
    return json.dumps(t)[:60]


def arg_str(a) -> str:
    if 'lifetime' in a:
        return a['lifetime']
    if 'type' in a:
        return ty_str(a['type'])
    return '?'


def bound_str(b) -> str:
    if 'trait_bound' in b:
        tb = b['trait_bound']
        s = tb['trait']['path']
        args = tb['trait'].get('args')
        if args and 'parenthesized' in args:
            s += '(' + ', '.join(ty_str(x) for x in args['parenthesized']['inputs']) + ')'
            if args['parenthesized'].get('output'):
                s += ' -> ' + ty_str(args['parenthesized']['output'])
        elif args and 'angle_bracketed' in args and args['angle_bracketed']['args']:
            s += '<' + ', '.join(arg_str(a) for a in args['angle_bracketed']['args']) + '>'
        if tb.get('modifier') == 'maybe':
            s = '?' + s
        return s
    if 'outlives' in b:
        return b['outlives']
    return '?'


def collect_bounds(generics) -> Dict[str, List[str]]:
    """generic-or-lifetime name -> list of bound strings (trait paths or lifetimes)"""
    out: Dict[str, List[str]] = {}
    for p in generics.get('params', []):
        k = p['kind']
        if 'type' in k:
            for b in k['type']['bounds']:
                out.setdefault(p['name'], []).append(bound_str(b))
        elif 'lifetime' in k:
            for o in k['lifetime']['outlives']:
                out.setdefault(p['name'], []).append(o)
    for wp in generics.get('where_predicates', []):
        if 'bound_predicate' in wp:
            bp = wp['bound_predicate']
            name = ty_str(bp['type'])
            for b in bp['bounds']:
                out.setdefault(name, []).append(bound_str(b))
        elif 'lifetime_predicate' in wp:
            lp = wp['lifetime_predicate']
            for o in lp['outlives']:
                out.setdefault(lp['lifetime'], []).append(o)
        elif 'region_predicate' in wp:
            lp = wp['region_predicate']
            for o in lp.get('bounds', []):
                out.setdefault(lp['lifetime'], []).append(bound_str(o))
    return out


def owner_params(api: Api) -> List[str]:
    """names of the key/value type parameters as they are called in this impl (HashMap<K,V,S> -> [K,V]; HashSet<T,S> -> [T])"""
    fr = api.impl_for
    base = fr['borrowed_ref']['type'] if 'borrowed_ref' in fr else fr
    args = base['resolved_path'].get('args') or {}
    tys = [a['type'] for a in args.get('angle_bracketed', {}).get('args', []) if 'type' in a]
    names = [t.get('generic') for t in tys]
    n = 2 if api.owner in ('HashMap', 'HashMapRef') else 1
    return [x for x in names[:n] if x]


def mentions_by_value(t, names: List[str]) -> bool:
    """does type t contain one of the generics `names` outside of any reference?"""
    if t is None:
        return False
    if 'generic' in t:
        return t['generic'] in names
    if 'borrowed_ref' in t or 'raw_pointer' in t:
        return False
    if 'tuple' in t:
        return any(mentions_by_value(x, names) for x in t['tuple'])
    if 'resolved_path' in t:
        args = t['resolved_path'].get('args') or {}
        for a in args.get('angle_bracketed', {}).get('args', []):
            if 'type' in a and mentions_by_value(a['type'], names):
                return True
        return False
    if 'impl_trait' in t:
        return any(_bound_mentions(b, names) for b in t['impl_trait'])
    return False


def _bound_mentions(b, names) -> bool:
    if 'trait_bound' not in b:
        return False
    args = b['trait_bound']['trait'].get('args')
    if not args:
        return False
    if 'parenthesized' in args:
        return mentions_by_value(args['parenthesized'].get('output'), names)
    if 'angle_bracketed' in args:
        for a in args['angle_bracketed']['args']:
            if 'type' in a and mentions_by_value(a['type'], names):
                return True
        for c in args['angle_bracketed'].get('constraints', []):
            bind = c.get('binding', {})
            if 'equality' in bind and 'type' in bind['equality'] and mentions_by_value(bind['equality']['type'], names):
                return True
    return False


def is_inserting(api: Api) -> bool:
    names = owner_params(api)
    if api.trait == 'Clone':
        return api.owner in ('HashMap', 'HashSet')     # cloning a reference wrapper copies no entries
    if api.trait in INSERT_TRAITS:
        return True
    if api.trait is not None:
        return False
    if api.vis != 'public':
        return False
    sig = api.fn['sig']
    for nm, t in sig['inputs']:
        if nm == 'self':
            continue
        if mentions_by_value(t, names):
            return True
    # closures that *produce* a value: F: FnOnce(..) -> Option<V>
    for p in api.fn['generics'].get('params', []):
        if 'type' in p['kind']:
            for b in p['kind']['type']['bounds']:
                if _bound_mentions(b, names):
                    return True
    for wp in api.fn['generics'].get('where_predicates', []):
        if 'bound_predicate' in wp:
            for b in wp['bound_predicate']['bounds']:
                if _bound_mentions(b, names):
                    return True
    return False


# ---------------------------------------------------------------------------------------------
# C17: Horn query on bounds
# ---------------------------------------------------------------------------------------------

def c17_query(api: Api) -> Tuple[bool, Dict[str, List[str]], List[str]]:
    """returns (entailed?, bounds, missing list) - decided by z3"""
    names = owner_params(api)
    b = collect_bounds(api.impl_generics)
    for k, v in collect_bounds(api.fn['generics']).items():
        b.setdefault(k, []).extend(v)
    s = z3.Solver()
    atoms = {}
    for g in names:
        for tr in ('Send', 'Sync'):
            atoms[(g, tr)] = z3.Bool('%s_%s' % (g, tr))
    # facts
    for g in names:
        for bound in b.get(g, []):
            base = bound.split('<')[0].split('::')[-1]
            if (g, base) in atoms:
                s.add(atoms[(g, base)])
    s.add(z3.Not(z3.And(list(atoms.values()))))
    r = C.check(s, 'C17 ' + api.key)
    missing = []
    if r == 'sat':
        m = s.model()
        for (g, tr), a in atoms.items():
            if not z3.is_true(m.eval(a, model_completion=True)) and not any(x.split('<')[0].split('::')[-1] == tr for x in b.get(g, [])):
                missing.append('%s: %s' % (g, tr))
    return r == 'unsat', b, missing


# ---------------------------------------------------------------------------------------------
# probe crates (rustc as oracle)
# ---------------------------------------------------------------------------------------------

def run_probe_crate(name: str, lib_rs: str, features=('serde', 'rayon'), extra_deps='serde = "1"\nserde_json = "1"\nrayon = "1"\n') -> Tuple[int, List[Dict[str, Any]], str]:
    """cargo check a library crate made of probe functions; returns (rc, diagnostics [{code, line, message}], stderr tail)"""
    from . import native
    snap = native.prepared_snapshot(True)
    d = os.path.join(C.scratch(), 'probe-' + name)
    os.makedirs(os.path.join(d, 'src'), exist_ok=True)
    feat = ', features = [%s]' % ', '.join('"%s"' % f for f in features) if features else ''
    with open(os.path.join(d, 'Cargo.toml'), 'w') as fh:
        fh.write('[package]\nname = "probe_%s"\nversion = "0.0.0"\nedition = "2021"\n\n[workspace]\n\n[lib]\npath = "src/lib.rs"\n\n[dependencies]\n'
                 'flurry = { path = "%s"%s }\nseize = "0.3.3"\n%s' % (name, snap, feat, extra_deps))
    lock = os.path.join(snap, 'Cargo.lock')
    if os.path.exists(lock):
        shutil.copy(lock, os.path.join(d, 'Cargo.lock'))
    with open(os.path.join(d, 'src', 'lib.rs'), 'w') as fh:
        fh.write(lib_rs)
    tgt = os.path.join(C.CACHE, 'target-probe')
    t0 = time.time()
    p = subprocess.run(['cargo', 'check', '--offline', '--message-format=json', '-q'], cwd=d, env=C.cargo_env({'CARGO_TARGET_DIR': tgt}),
                       stdout=subprocess.PIPE, stderr=subprocess.PIPE, text=True, timeout=900)
    diags = []
    for line in p.stdout.split('\n'):
        if not line.startswith('{'):
            continue
        try:
            m = json.loads(line)
        except Exception:
            continue
        if m.get('reason') != 'compiler-message':
            continue
        msg = m['message']
        if msg.get('level') != 'error':
            continue
        tgt_name = m.get('target', {}).get('name', '')
        if not tgt_name.startswith('probe_'):
            diags.append({'code': 'DEP', 'line': 0, 'message': msg.get('message', '')})
            continue
        code = (msg.get('code') or {}).get('code')
        lines = [sp['line_start'] for sp in msg.get('spans', []) if sp.get('is_primary')] or [sp['line_start'] for sp in msg.get('spans', [])]
        diags.append({'code': code, 'line': lines[0] if lines else 0, 'message': msg.get('message', '')})
    C.log('probe crate %s: rc=%s %d errors %.1fs' % (name, p.returncode, len(diags), time.time() - t0))
    return p.returncode, diags, p.stderr[-1500:]


class ProbeSet:
    """a set of probe functions in one crate; tracks which source lines belong to which probe"""

    def __init__(self, prelude: str):
        self.lines: List[str] = prelude.split('\n')
        self.ranges: Dict[str, Tuple[int, int]] = {}

    def add(self, pid: str, body: str):
        fn = re.sub(r'[^A-Za-z0-9_]', '_', pid)
        start = len(self.lines) + 1
        self.lines.append('#[allow(unused, dead_code)]')
        self.lines.append('pub fn p_%s() {' % fn)
        for l in body.strip('\n').split('\n'):
            self.lines.append('    ' + l)
        self.lines.append('}')
        self.ranges[pid] = (start, len(self.lines))

    def text(self) -> str:
        return '\n'.join(self.lines) + '\n'

    def attribute(self, diags) -> Dict[str, List[Dict[str, Any]]]:
        out: Dict[str, List[Dict[str, Any]]] = {k: [] for k in self.ranges}
        out['<other>'] = []
        for d in diags:
            hit = False
            for pid, (a, b) in self.ranges.items():
                if a <= d['line'] <= b:
                    out[pid].append(d)
                    hit = True
                    break
            if not hit:
                out['<other>'].append(d)
        return out


def split_args(bound: str) -> List[str]:
    """argument list of a parenthesised Fn bound string like `FnOnce(&K, &V) -> Option<V>`"""
    a = bound.index('(')
    depth = 0
    for i in range(a, len(bound)):
        if bound[i] == '(':
            depth += 1
        elif bound[i] == ')':
            depth -= 1
            if depth == 0:
                inner = bound[a + 1:i].strip()
                if not inner:
                    return []
                out, d, cur = [], 0, ''
                for ch in inner:
                    if ch in '(<[':
                        d += 1
                    elif ch in ')>]':
                        d -= 1
                    if ch == ',' and d == 0:
                        out.append(cur.strip())
                        cur = ''
                    else:
                        cur += ch
                out.append(cur.strip())
                return out
    return []
