"""Path obligations over the MIR control-flow graph, decided by z3.

A query is a *monitor*: a small finite automaton that observes the edges of a function's CFG (which block is left,
through which kind of edge: normal return / unwind / switch arm) and ends in BAD when the rule is broken.  The product
CFG x monitor x drop-flag valuation is handed to the solver as a reachability constraint system:

    reach(v)  ->  v = init  \/  exists u. reach(u) /\ T(u,v) /\ rank(u) < rank(v)          (well-founded justification)
    assert reach(bad)

`unsat` means: no path of any length reaches BAD (the encoding is complete for the finite product, the only bound is
how deep calls are followed); `sat` returns the path (read from the model by following the justifications), which is
printed with file:line spans and replayed natively by the caller before it is reported.
"""
from __future__ import annotations
import re, time
from typing import Dict, List, Tuple, Optional, Any, Callable, Iterable, Set
import z3
from . import mir as M
from . import common as C

BAD = '__BAD__'


# ----------------------------------------------------------------------------
# effect classification of terminators
# ----------------------------------------------------------------------------

ATOMIC_WRITES = ('store', 'swap', 'compare_exchange', 'compare_exchange_weak', 'fetch_add', 'fetch_sub', 'fetch_or', 'fetch_and',
                 'fetch_xor', 'fetch_update')


def callee_name(t: M.Terminator) -> str:
    if t.kind != 'call':
        return ''
    if t.callee_op is not None:
        return '<indirect>'
    return M.canon_callee(t.callee)


def last_seg(name: str) -> str:
    return name.rsplit('::', 1)[-1]


def is_lock_acquire(name: str) -> bool:
    return name.endswith('lock_api::Mutex::lock') or name.endswith('Mutex::lock') or name.endswith('Mutex::try_lock')


def local_type(fn: M.Function, place: M.Place) -> str:
    """type of a place when it is a bare local or ends in a typed field projection"""
    if place.proj and place.proj[-1][0] == 'field' and place.proj[-1][2]:
        return place.proj[-1][2]
    if not place.proj:
        return fn.locals.get(place.local, '')
    return ''


def is_mutex_guard_type(ty: str) -> bool:
    return 'MutexGuard<' in ty and not ty.lstrip().startswith('&')


def is_lock_release(fn: M.Function, t: M.Terminator) -> bool:
    if t.kind == 'drop':
        return is_mutex_guard_type(local_type(fn, t.place))
    if t.kind == 'call':
        n = callee_name(t)
        if n in ('std::mem::drop', 'core::mem::drop', 'drop') and 'MutexGuard<' in t.callee:
            return True
        if n.endswith('MutexGuard as Drop>::drop') or n.endswith('Mutex::force_unlock') or n.endswith('MutexGuard::unlock'):
            return True
    return False


def is_shared_write(name: str) -> bool:
    l = last_seg(name)
    if name.startswith('reclaim::Atomic::') and l in ('store', 'swap', 'compare_exchange'):
        return True
    if name.startswith('raw::Table::') and l in ('store_bin', 'cas_bin'):
        return True
    if ('sync::atomic::Atomic' in name) and l in ATOMIC_WRITES:
        return True
    return False


def is_retire(name: str) -> bool:
    return name.endswith('RetireShared>::retire_shared') or name.endswith('TreeBin::defer_drop_without_values') \
        or name.endswith('Guard::defer_retire') or name.endswith('::retire_shared')


def is_user_callback(t: M.Terminator) -> bool:
    if t.kind != 'call':
        return False
    if t.callee_op is not None:
        return True
    n = callee_name(t)
    return bool(re.match(r'<[A-Z][A-Za-z0-9]* as Fn(Once|Mut)?>::call(_once|_mut)?$', n))


PANIC_FNS = ('panic', 'panic_fmt', 'core::panicking::panic', 'core::panicking::panic_fmt', 'std::rt::begin_panic', 'begin_panic',
             'core::panicking::assert_failed', 'assert_failed', 'unreachable_display', 'panic_display', 'panic_explicit',
             'core::panicking::unreachable_display', 'core::panicking::panic_nounwind', 'core::panicking::panic_cannot_unwind')


def is_panic_call(t: M.Terminator) -> bool:
    if t.kind != 'call':
        return False
    n = callee_name(t)
    return n in PANIC_FNS or last_seg(n) in ('panic', 'panic_fmt', 'assert_failed', 'unreachable_display', 'panic_display', 'begin_panic')


def may_panic_implicit(t: M.Terminator) -> bool:
    """std calls that panic on a failed precondition"""
    if t.kind != 'call':
        return False
    n = callee_name(t)
    return bool(re.search(r'(Option|Result)::(unwrap|expect|unwrap_err|expect_err)$', n))


# ----------------------------------------------------------------------------
# CFG + drop flags
# ----------------------------------------------------------------------------

def const_flag_locals(fn: M.Function) -> List[int]:
    """bool locals that are only ever assigned `const true/false` and only read by `switchInt(copy _n)`:
    rustc's drop flags (and similar).  Their value is tracked exactly in the product."""
    assigned: Dict[int, bool] = {}
    bad: Set[int] = set()
    for b in fn.blocks.values():
        for s in b.stmts:
            if s.kind == 'assign':
                if not s.place.proj and fn.locals.get(s.place.local) == 'bool':
                    rv = s.rvalue
                    if rv.kind == 'use' and rv.ops[0].kind == 'const' and rv.ops[0].const in ('true', 'false'):
                        assigned[s.place.local] = True
                    else:
                        bad.add(s.place.local)
                # any other mention (address taken, copied elsewhere) disqualifies
                for l in _mentioned_locals_rvalue(s.rvalue):
                    bad.add(l)
            elif s.place is not None:
                bad.add(s.place.local)
        t = b.term
        if t.kind == 'call':
            for a in t.args:
                if a.place is not None:
                    bad.add(a.place.local)
            if t.place is not None:
                bad.add(t.place.local)
        elif t.kind == 'assert' and t.cond.place is not None:
            bad.add(t.cond.place.local)
        elif t.kind == 'drop':
            bad.add(t.place.local)
    for pn, _ in fn.params:
        bad.add(pn)
    return sorted(l for l in assigned if l not in bad)


def _mentioned_locals_rvalue(rv: M.Rvalue) -> List[int]:
    out = []
    for o in rv.ops:
        if o.place is not None:
            out.append(o.place.local)
    if rv.place is not None:
        out.append(rv.place.local)
    if rv.extra and isinstance(rv.extra, list):
        for _, o in rv.extra:
            if isinstance(o, M.Operand) and o.place is not None:
                out.append(o.place.local)
    return out


class Edge:
    __slots__ = ('src', 'dst', 'kind', 'value')

    def __init__(self, src, dst, kind, value=None):
        self.src = src      # block index
        self.dst = dst      # block index or 'RETURN' / 'RESUME' / 'ABORT'
        self.kind = kind    # 'goto' 'case' 'otherwise' 'ret' (normal return of call/drop/assert success) 'unwind' 'exit'
        self.value = value  # switch value for 'case'

    def __repr__(self):
        return 'Edge(%s->%s %s %s)' % (self.src, self.dst, self.kind, self.value)


def block_edges(fn: M.Function, b: M.Block) -> List[Edge]:
    t = b.term
    out = []
    if t.kind == 'goto':
        out.append(Edge(b.idx, t.target, 'goto'))
    elif t.kind == 'switch':
        for v, tgt in t.cases:
            out.append(Edge(b.idx, tgt, 'case', v))
        if t.otherwise is not None:
            out.append(Edge(b.idx, t.otherwise, 'otherwise'))
    elif t.kind == 'return':
        out.append(Edge(b.idx, 'RETURN', 'exit'))
    elif t.kind == 'resume':
        out.append(Edge(b.idx, 'RESUME', 'exit'))
    elif t.kind in ('unreachable',):
        pass
    elif t.kind == 'terminate':
        out.append(Edge(b.idx, 'ABORT', 'exit'))
    elif t.kind in ('call', 'drop', 'assert'):
        if t.target is not None:
            out.append(Edge(b.idx, t.target, 'ret'))
        if isinstance(t.unwind, int):
            out.append(Edge(b.idx, t.unwind, 'unwind'))
        elif t.unwind == 'continue':
            out.append(Edge(b.idx, 'RESUME', 'unwind'))
        elif t.unwind == 'terminate':
            out.append(Edge(b.idx, 'ABORT', 'unwind'))
        elif t.unwind is None and t.kind == 'call' and t.target is None:
            # diverging call without cleanup
            out.append(Edge(b.idx, 'RESUME', 'unwind'))
    return out


# ----------------------------------------------------------------------------
# the monitor interface and the solver query
# ----------------------------------------------------------------------------

class Monitor:
    """override `init` and `step`.  States must be hashable; return BAD to flag a violation, None to prune the edge."""
    name = 'monitor'

    def init(self, fn: M.Function):
        return 0

    def step(self, fn: M.Function, block: M.Block, edge: Edge, state):
        return state

    def at_exit(self, fn: M.Function, exit_kind: str, state):
        """called for edges into RETURN / RESUME / ABORT; return BAD to flag"""
        return state


class PathResult:
    def __init__(self, holds: bool, path=None, nodes=0, edges=0, time_s=0.0):
        self.holds = holds
        self.path = path or []
        self.nodes = nodes
        self.edges = edges
        self.time_s = time_s


def build_product(fn: M.Function, mon: Monitor, start_block: int = 0, start_state=None, use_flags: bool = True,
                  start_flags: Optional[Dict[int, Optional[bool]]] = None):
    """explicit *transition relation* of CFG x flags x monitor (this is only the relation: which states are reachable is
    what the solver decides)."""
    flags = const_flag_locals(fn) if use_flags else []
    fidx = {l: i for i, l in enumerate(flags)}
    init_flags = tuple((start_flags or {}).get(l, None) for l in flags)   # None = unknown (either)
    m0 = mon.init(fn) if start_state is None else start_state
    init = (start_block, init_flags, m0)
    nodes = {init: 0}
    order = [init]
    trans: List[Tuple[int, int, Any]] = []
    work = [init]
    bad_id = None
    while work:
        cur = work.pop()
        bidx, fl, ms = cur
        if not isinstance(bidx, int):
            continue
        b = fn.blocks[bidx]
        # apply the block's flag assignments
        fl2 = list(fl)
        for s in b.stmts:
            if s.kind == 'assign' and not s.place.proj and s.place.local in fidx:
                fl2[fidx[s.place.local]] = (s.rvalue.ops[0].const == 'true')
        fl2t = tuple(fl2)
        for e in block_edges(fn, b):
            # deterministic switch on a tracked flag
            t = b.term
            if t.kind == 'switch' and t.discr.place is not None and not t.discr.place.proj and t.discr.place.local in fidx:
                v = fl2t[fidx[t.discr.place.local]]
                if v is not None:
                    iv = 1 if v else 0
                    listed = [c for c, _ in t.cases]
                    if e.kind == 'case' and e.value != iv:
                        continue
                    if e.kind == 'otherwise' and iv in listed:
                        continue
            ns = mon.step(fn, b, e, ms)
            if ns is None:
                continue
            if ns != BAD and not isinstance(e.dst, int):
                ns = mon.at_exit(fn, e.dst, ns)
                if ns is None:
                    continue
            if ns == BAD:
                nxt = BAD
            else:
                nxt = (e.dst, fl2t, ns)
            if nxt not in nodes:
                nodes[nxt] = len(order)
                order.append(nxt)
                if nxt != BAD:
                    work.append(nxt)
            trans.append((nodes[cur], nodes[nxt], e))
    return order, nodes, trans


def solve_reach(order, nodes, trans, label: str, cross: bool = False) -> Tuple[bool, List[Tuple[Any, Any]]]:
    """True + path if BAD is reachable in the transition system (solver verdict)."""
    if BAD not in nodes:
        # BAD does not even occur in the relation: still ask the solver the (trivial) query so that every verdict is one
        s = z3.Solver()
        r = z3.Bool('reach_bad')
        s.add(r == z3.BoolVal(False))
        s.add(r)
        res = C.check(s, label + ' [bad not in relation]')
        assert res == 'unsat'
        return False, []
    n = len(order)
    reach = [z3.Bool('r%d' % i) for i in range(n)]
    rank = [z3.Int('k%d' % i) for i in range(n)]
    preds: Dict[int, List[int]] = {}
    for (u, v, e) in trans:
        preds.setdefault(v, []).append(u)
    s = z3.Solver()
    for v in range(n):
        if v == 0:
            s.add(rank[0] == 0)
            continue
        ps = preds.get(v, [])
        if not ps:
            s.add(z3.Not(reach[v]))
        else:
            s.add(z3.Implies(reach[v], z3.Or([z3.And(reach[u], rank[u] < rank[v]) for u in set(ps)])))
    s.add(reach[0])
    s.add(reach[nodes[BAD]])
    res = C.check(s, label, cross=cross)
    if res == 'unsat':
        return False, []
    mdl = s.model()
    # walk back the justification
    path = []
    v = nodes[BAD]
    guard = 0
    while v != 0 and guard < 100000:
        guard += 1
        rv = mdl.eval(rank[v], model_completion=True).as_long()
        best = None
        for (u, vv, e) in trans:
            if vv != v:
                continue
            if z3.is_true(mdl.eval(reach[u], model_completion=True)) and mdl.eval(rank[u], model_completion=True).as_long() < rv:
                best = (u, e)
                break
        if best is None:
            break
        path.append((order[best[0]], best[1]))
        v = best[0]
    path.reverse()
    return True, path


def run_monitor(fn: M.Function, mon: Monitor, label: Optional[str] = None, start_block: int = 0, start_state=None,
                cross: bool = False, start_flags=None) -> PathResult:
    t0 = time.time()
    order, nodes, trans = build_product(fn, mon, start_block, start_state, start_flags=start_flags)
    found, path = solve_reach(order, nodes, trans, label or ('%s @ %s' % (mon.name, fn.name)), cross=cross)
    return PathResult(not found, path, len(order), len(trans), time.time() - t0)


def describe_path(fn: M.Function, path, limit: int = 60) -> str:
    """human readable rendering of a counterexample path with file:line spans"""
    out = []
    for (node, e) in path:
        bidx = node[0]
        b = fn.blocks[bidx]
        t = b.term
        span = t.span or ''
        what = t.text.strip()
        if len(what) > 140:
            what = what[:137] + '...'
        out.append('bb%d --%s%s--> %s   [%s]  %s' % (bidx, e.kind, ('=%s' % e.value) if e.value is not None else '', e.dst, span, what))
    if len(out) > limit:
        out = out[:limit // 2] + ['... (%d steps omitted) ...' % (len(out) - limit)] + out[-limit // 2:]
    return '\n'.join(out)


def path_spans(fn: M.Function, path) -> List[str]:
    out = []
    for (node, e) in path:
        t = fn.blocks[node[0]].term
        if t.span:
            out.append(t.span.split(': ')[0])
    return out


# ----------------------------------------------------------------------------
# call graph helpers
# ----------------------------------------------------------------------------

class Program:
    def __init__(self, fns: Dict[str, M.Function]):
        self.consts = fns.get('__consts__', {})
        self.fns: Dict[str, M.Function] = {k: v for k, v in fns.items() if k != '__consts__'}
        self._suffix: Dict[str, List[str]] = {}
        for name in self.fns:
            base = name.split('#')[0]
            parts = base.split('::')
            for i in range(len(parts)):
                self._suffix.setdefault('::'.join(parts[i:]), []).append(name)

    def resolve(self, callee_canon: str, arity: Optional[int] = None) -> List[M.Function]:
        """crate-local definitions a call may dispatch to (empty for std / foreign / trait-generic callees)"""
        c = callee_canon
        if c in self.fns:
            cands = [n for n in self.fns if n == c or n.startswith(c + '#')]
        else:
            cands = list(self._suffix.get(c, []))
            if not cands and c.startswith('<'):
                # `<Shared as PartialEq>::eq` vs def `<reclaim::Shared as PartialEq>::eq`
                m = re.match(r'<(.+?) as (.+?)>::(.+)$', c)
                if m:
                    ty, tr, meth = m.group(1), m.group(2), m.group(3)
                    ty = ty.lstrip('&').strip()
                    for n in self.fns:
                        mm = re.match(r'<(.+?) as (.+?)>::(.+?)(#\d+)?$', n)
                        if mm and mm.group(3) == meth and (mm.group(1) == ty or mm.group(1).endswith('::' + ty) or ty.endswith('::' + mm.group(1))) \
                                and (mm.group(2) == tr or mm.group(2).endswith('::' + tr) or tr.endswith('::' + mm.group(2))):
                            cands.append(n)
        fs = [self.fns[n] for n in cands if not self.fns[n].is_const]
        if arity is not None:
            fs2 = [f for f in fs if len(f.params) == arity]
            if fs2:
                fs = fs2
        return fs

    def callees(self, fn: M.Function) -> List[Tuple[M.Block, str, List[M.Function]]]:
        out = []
        for b in fn.blocks.values():
            t = b.term
            if t.kind == 'call' and t.callee_op is None:
                n = callee_name(t)
                out.append((b, n, self.resolve(n, len(t.args))))
        return out

    def closures_of(self, fn: M.Function) -> List[M.Function]:
        base = fn.name.split('#')[0]
        out = []
        for n, f in self.fns.items():
            if n.startswith(base + '::{closure#') and n.count('{closure#') == base.count('{closure#') + 1:
                out.append(f)
        return out

    def get(self, name: str) -> M.Function:
        if name in self.fns:
            return self.fns[name]
        c = self._suffix.get(name, [])
        c = [x for x in c if not self.fns[x].is_const]
        if len(c) == 1:
            return self.fns[c[0]]
        raise KeyError('%s -> %s' % (name, c))

    def find(self, pattern: str) -> List[M.Function]:
        r = re.compile(pattern)
        return [f for n, f in self.fns.items() if r.search(n) and not f.is_const]
