"""Bounded interleaving exploration on the concrete-heap interpreter (mode B, several logical threads).

Each logical thread executes flurry's MIR in its own interpreter over the SHARED concrete heap.  Every access to a shared
cell (atomic load/store/swap/CAS/fetch, Guard::protect, bin lock acquire/release, park/unpark, yield_now) is a scheduling
point.  At a scheduling point the schedule variable of that step decides which enabled thread moves next; the decision is
made through the same decision mechanism as data branches (`PathCtx.choose` over `sched_i == t`), so schedules and symbolic
data are explored together, depth-first by re-execution.  Switching away from a thread that could continue costs one unit
of the preemption budget (context bounding); switches at blocking points and at thread exit are free.  park/unpark have
token semantics, a bin lock blocks its second acquirer, seize is the ledger model with per-retirement protection sets.
"""
from __future__ import annotations
import itertools, threading, time
from typing import Any, Callable, Dict, List, Optional, Tuple
import z3
from . import common as C
from .modeb import Interp, PathCtx, Violation, Unwind, PathAbort, Unsupported, Sc


class Abort(BaseException):
    """raised inside a logical thread to unwind it when the path is over"""


class LThread:
    def __init__(self, tid: int, name: str, body: Callable[[Interp], Any]):
        self.tid = tid
        self.name = name
        self.body = body
        self.sem = threading.Semaphore(0)
        self.done = False
        self.blocked_on: Optional[Any] = None     # ('lock', ptr) | ('park',)
        self.exc: Optional[BaseException] = None
        self.result = None
        self.interp: Optional[Interp] = None
        self.token = False                         # park token
        self.pending = ''                          # description of the access it is about to make
        self.spins = 0
        self.py: Optional[threading.Thread] = None
        self.started = False
        self.inv_step = None
        self.res_step = None


class Scheduler:
    def __init__(self, ctx: PathCtx, preemptions: int, max_steps: int = 4000, yield_loads: bool = True):
        self.ctx = ctx
        self.yield_loads = yield_loads
        self.budget = preemptions
        self.threads: List[LThread] = []
        self.main_sem = threading.Semaphore(0)
        self.current: Optional[LThread] = None
        self.step = 0
        self.max_steps = max_steps
        self.trace: List[str] = []
        self.aborting = False
        self.switches = 0
        self.readers: set = set()       # thread ids whose operations are reads: they must never block or spin
        self.on_step = None             # optional callback(description) after every completed step (state invariants)

    # ---- called from logical threads ---------------------------------------------------
    def point(self, lt: LThread, what: str, blocking: Optional[Tuple] = None, spin: bool = False):
        """a scheduling point *before* the access `what`"""
        if self.aborting:
            raise Abort()
        if (blocking is not None or spin) and lt.tid in self.readers:
            raise Violation('read-blocks', 'a read operation (%s) %s: %s' % (lt.name, 'waits for a lock / wake-up' if blocking else 'spins waiting for another thread', what))
        lt.pending = what
        lt.blocked_on = blocking
        if spin:
            lt.spins += 1
        self.main_sem.release()      # hand the baton to the scheduler
        lt.sem.acquire()             # wait to be scheduled again
        if self.aborting:
            raise Abort()
        lt.blocked_on = None

    # ---- scheduler loop --------------------------------------------------------------------
    def enabled(self, lt: LThread) -> bool:
        if lt.done:
            return False
        b = lt.blocked_on
        if b is None:
            return True
        if b[0] == 'lock':
            m = b[1]()
            return not m.locked
        if b[0] == 'park':
            return lt.token
        return True

    def run(self):
        for lt in self.threads:
            lt.py = threading.Thread(target=self._thread_main, args=(lt,), daemon=True)
        cur: Optional[LThread] = None
        try:
            while True:
                live = [t for t in self.threads if not t.done]
                if not live:
                    return
                en = [t for t in live if self.enabled(t)]
                if not en:
                    raise Violation('deadlock', 'no thread can move: ' + '; '.join('%s waits for %s (about to: %s)' % (t.name, t.blocked_on[0] if t.blocked_on else '?', t.pending) for t in live))
                self.step += 1
                if self.step > self.max_steps:
                    raise Violation('livelock', 'schedule exceeded %d scheduling points; last: %s' % (self.max_steps, self.trace[-6:]))
                nxt = self.pick(cur, en)
                if nxt is not cur:
                    self.switches += 1
                cur = nxt
                self.trace.append('%s: %s' % (cur.name, cur.pending or 'start'))
                if not cur.started:
                    cur.started = True
                    cur.inv_step = self.step
                    cur.py.start()
                else:
                    cur.sem.release()
                self.main_sem.acquire()          # until it reaches its next point or finishes
                if cur.exc is not None:
                    raise cur.exc
                if self.on_step is not None:
                    self.on_step(self.trace[-1])
                if cur.done and cur.res_step is None:
                    cur.res_step = self.step
        finally:
            self.shutdown()

    def pick(self, cur: Optional[LThread], en: List[LThread]) -> LThread:
        if cur is not None and cur in en and not (cur.blocked_on is None and cur.pending.startswith('yield')):
            # continuing is free; switching away costs a preemption
            if self.budget <= 0 or len(en) == 1:
                return cur
            others = [t for t in en if t is not cur]
            opts = [cur] + others
        else:
            # free switch (current blocked, finished, yielded, or first step)
            opts = [t for t in en if t is not cur] or en
            if len(opts) == 1:
                return opts[0]
        v = z3.Int('sched_%d' % self.step)
        k = self.ctx.choose([v == t.tid for t in opts])
        ch = opts[k]
        if cur is not None and cur in en and ch is not cur and not cur.pending.startswith('yield'):
            self.budget -= 1
        return ch

    def _thread_main(self, lt: LThread):
        try:
            lt.result = lt.body(lt.interp)
        except Abort:
            pass
        except BaseException as e:      # Violation, Unwind, Unsupported, Inconclusive ...
            lt.exc = e
        finally:
            lt.done = True
            lt.pending = 'exit'
            self.main_sem.release()

    def shutdown(self):
        self.aborting = True
        for t in self.threads:
            if t.started and not t.done:
                t.sem.release()
        for t in self.threads:
            if t.started and t.py is not None:
                t.py.join(timeout=5)


def attach(it: Interp, sched: Scheduler, lt: LThread):
    it.sched = sched
    it.lt = lt
    lt.interp = it
