"""mirsym mode A: bit-precise symbolic execution of integer-level MIR into z3.

Machine integers are bit-vectors of their real width with wrapping semantics; the `*WithOverflow` operations produce the
overflow flag MIR asserts on, so an arithmetic-overflow panic is a reachable event, not ignored.  Pointers are 64-bit
identities (0 = null).  Atomic cells reached through `self` are named state variables.  Crate-local callees listed in
`inline` are executed from their own MIR; a small library of std functions has exact semantics; *observation points*
record the argument terms of designated calls together with the path condition; every other callee is havoc.

Exploration forks at symbolic branches (feasibility decided by the solver, incremental push/pop) with a per-path bound
on block revisits.  The result is a list of `Obs` (events with path conditions) over which the property modules state
their queries.
"""
from __future__ import annotations
import re, itertools
from dataclasses import dataclass, field
from typing import Dict, List, Tuple, Optional, Any, Callable
import z3
from . import mir as M, common as C
from .mirpath import Program, callee_name

WIDTH = {'u8': 8, 'i8': 8, 'u16': 16, 'i16': 16, 'u32': 32, 'i32': 32, 'u64': 64, 'i64': 64, 'usize': 64, 'isize': 64,
         'u128': 128, 'i128': 128, 'char': 32}
SIGNED = {'i8', 'i16', 'i32', 'i64', 'isize', 'i128'}


def int_ty(ty: str) -> Optional[str]:
    ty = ty.strip()
    return ty if ty in WIDTH else None


# ---- symbolic values -----------------------------------------------------------

@dataclass
class Int:
    v: Any            # z3 BitVecRef
    ty: str

    @property
    def signed(self):
        return self.ty in SIGNED


@dataclass
class Bool:
    v: Any            # z3 BoolRef


@dataclass
class Tup:
    items: List[Any]


@dataclass
class Enum:
    """Option / Result / Ordering / any C-like enum: discriminant + payload per variant (only the live one is meaningful)"""
    ty: str
    discr: Any        # z3 BitVec(64)
    payload: Dict[int, List[Any]]


@dataclass
class Ptr:
    """opaque pointer / reference identity; 0 = null.  `what` is a hint (type text)."""
    v: Any            # z3 BitVec(64)
    what: str = ''


@dataclass
class CellRef:
    name: str         # reference to a named state cell


@dataclass
class LocalRef:
    frame: int
    place: M.Place


@dataclass
class ValRef:
    """reference to an immutable value (promoted constants)"""
    val: Any


@dataclass
class Unit:
    pass


@dataclass
class Opaque:
    """anything we do not model; carries a fresh identity so that equality is at least reflexive"""
    ty: str
    ident: int


@dataclass
class Obs:
    kind: str                 # 'call' | 'store' | 'panic' | 'return' | 'cas' | ...
    name: str
    args: List[Any]
    pc: List[Any]             # path condition (z3 BoolRefs) at the event
    span: Optional[str] = None
    fn: str = ''
    extra: Dict[str, Any] = field(default_factory=dict)
    path_id: int = 0
    trail: Tuple[int, ...] = ()     # indices (into Engine.obs) of the earlier observations on the same path


class Stop(Exception):
    pass


_fresh = itertools.count()


def fresh_bv(name: str, w: int):
    return z3.BitVec('%s!%d' % (name, next(_fresh)), w)


def fresh_bool(name: str):
    return z3.Bool('%s!%d' % (name, next(_fresh)))


def const_int(text: str) -> Optional[Tuple[int, str]]:
    m = re.match(r'(-?\d+)_([iu](?:8|16|32|64|128|size))$', text)
    if m:
        return int(m.group(1)), m.group(2)
    return None


class Frame:
    def __init__(self, fn: M.Function, idx: int):
        self.fn = fn
        self.idx = idx
        self.locals: Dict[int, Any] = {}
        self.visits: Dict[int, int] = {}


class Engine:
    def __init__(self, prog: Program, inline: Callable[[str], bool] = lambda n: False, loop_bound: int = 2,
                 observe: Callable[[str], bool] = lambda n: False, max_paths: int = 4000, field_names: Optional[Dict[Tuple[str, int], str]] = None):
        self.prog = prog
        self.inline = inline
        self.loop_bound = loop_bound
        self.observe = observe
        self.max_paths = max_paths
        self.solver = z3.Solver()
        self.obs: List[Obs] = []
        self.paths = 0
        self.truncated = 0            # paths cut by the loop bound
        self.havoc_calls: Dict[str, int] = {}
        self.modelled_calls: Dict[str, int] = {}
        self.cells: Dict[str, Any] = {}
        self.cell_ty: Dict[str, str] = {}
        self.uf: Dict[str, Any] = {}
        self.field_names = field_names or {}
        self.frames: List[Frame] = []
        self.pc: List[Any] = []
        self.const_cache: Dict[str, Any] = {}
        self.branch_queries = 0
        self.steps = 0
        self.hooks: Dict[str, Callable] = {}     # callee name -> python model(engine, term, args) -> value
        self.trail: List[int] = []
        self.stop_after: Callable[[str], bool] = lambda n: False   # end the path right after observing such a call
        self.pre_atomic: Optional[Callable[[Any, str, str], None]] = None   # interference model: called before every atomic access (engine, cell, op)

    # ---- helpers ---------------------------------------------------------------
    def add_obs(self, o: Obs):
        o.trail = tuple(self.trail)
        self.obs.append(o)
        self.trail.append(len(self.obs) - 1)

    def table_len(self, p):
        f = self.uf.setdefault('table_len', z3.Function('table_len', z3.BitVecSort(64), z3.BitVecSort(64)))
        return f(p)

    def fresh_of_type(self, ty: str, hint: str = 'v'):
        ty = ty.strip()
        it = int_ty(ty)
        if it:
            return Int(fresh_bv(hint, WIDTH[it]), it)
        if ty == 'bool':
            return Bool(fresh_bool(hint))
        if ty == '()':
            return Unit()
        if ty.startswith('(') and ty.endswith(')'):
            parts = [p for p in M.split_top(ty[1:-1], ', ') if p.strip()]
            return Tup([self.fresh_of_type(p, hint) for p in parts])
        if ty.startswith('std::option::Option<') or ty.startswith('Option<'):
            inner = ty[ty.index('<') + 1:-1]
            return Enum(ty, fresh_bv(hint + '_d', 64), {1: [self.fresh_of_type(inner, hint)], 0: []})
        if ty.startswith('std::result::Result<') or ty.startswith('Result<'):
            a, b = M.split_top(ty[ty.index('<') + 1:-1], ', ')
            return Enum(ty, fresh_bv(hint + '_d', 64), {0: [self.fresh_of_type(a, hint)], 1: [self.fresh_of_type(b, hint)]})
        if ty == 'std::cmp::Ordering':
            return Enum(ty, fresh_bv(hint + '_d', 64), {})
        if ty.startswith('&') or ty.startswith('*') or 'Shared<' in ty.split('::')[-1] or ty.startswith('reclaim::Shared<') or ty.startswith('Shared<'):
            return Ptr(fresh_bv(hint + '_p', 64), ty)
        return Opaque(ty, next(_fresh))

    def eval_const(self, text: str, ty_hint: Optional[str] = None):
        ci = const_int(text)
        if ci:
            v, t = ci
            return Int(z3.BitVecVal(v, WIDTH[t]), t)
        if text in ('true', 'false'):
            return Bool(z3.BoolVal(text == 'true'))
        if text == '()':
            return Unit()
        # named constants of the crate: evaluate their MIR (or one-line value)
        name = M.strip_generics(text)
        if name in self.const_cache:
            return self.const_cache[name]
        consts = self.prog.consts
        key = None
        for k in (name, name.split('::')[-1]):
            if k in consts:
                key = k
                break
        if key is not None:
            v = self.eval_const(consts[key][1])
            self.const_cache[name] = v
            return v
        # block-bodied const: run its MIR
        cands = [f for n, f in self.prog.fns.items() if f.is_const and (n == name or n.endswith('::' + name) or n == name.split('::')[-1])]
        if cands:
            sub = Engine(self.prog, inline=lambda n: False)
            sub.const_cache = self.const_cache
            res = sub.run_const(cands[0])
            self.const_cache[name] = res
            return res
        m = re.match(r'(.+)::promoted\[(\d+)\]$', name)
        if m:
            cands = [f for n, f in self.prog.fns.items() if f.is_const and n.endswith('promoted[%s]' % m.group(2)) and M.strip_generics(m.group(1)).split('::')[-1] in n]
            if cands:
                sub = Engine(self.prog)
                sub.const_cache = self.const_cache
                res = sub.run_const(cands[0], as_ref=True)
                return res
        if text.startswith('"'):
            return Opaque('&str', next(_fresh))
        return Opaque('const ' + text, next(_fresh))

    def run_const(self, fn: M.Function, as_ref: bool = False):
        out = []

        def on_ret(v):
            if isinstance(v, LocalRef):
                v = ValRef(self.read_place(self.frames[v.frame], v.place))
            out.append(v)
        self._run_fn(fn, [], on_ret)
        if not out:
            return Opaque('const?', next(_fresh))
        v = out[0]
        return v

    # ---- places ------------------------------------------------------------------
    def read_place(self, fr: Frame, pl: M.Place):
        if pl.local not in fr.locals:
            fr.locals[pl.local] = self.fresh_of_type(fr.fn.locals.get(pl.local, '?'), '%s_%d' % (fr.fn.name.split('::')[-1], pl.local))
        v = fr.locals[pl.local]
        i = 0
        proj = pl.proj
        while i < len(proj):
            p = proj[i]
            if p[0] == 'deref':
                if isinstance(v, LocalRef):
                    v = self.read_place(self.frames[v.frame], v.place)
                elif isinstance(v, ValRef):
                    v = v.val
                elif isinstance(v, CellRef):
                    v = self.cell(v.name)
                elif isinstance(v, Ptr):
                    # field of an opaque object: handled at the field step
                    if i + 1 < len(proj) and proj[i + 1][0] == 'field':
                        f = proj[i + 1]
                        v = self.object_field(v, f[1], f[2] or '?')
                        i += 2
                        continue
                    v = Opaque('*' + v.what, next(_fresh))
                else:
                    v = Opaque('deref?', next(_fresh))
            elif p[0] == 'field':
                if isinstance(v, Tup):
                    v = v.items[p[1]]
                elif isinstance(v, Enum):
                    # payload access after a downcast was applied
                    v = Opaque('enumfield', next(_fresh))
                elif isinstance(v, _Down):
                    pay = v.enum.payload.get(v.variant)
                    if pay is not None and p[1] < len(pay):
                        v = pay[p[1]]
                    else:
                        v = self.fresh_of_type(p[2] or '?', 'pay')
                else:
                    v = self.fresh_of_type(p[2] or '?', 'fld')
            elif p[0] == 'downcast':
                if isinstance(v, Enum):
                    v = _Down(v, _variant_index(v.ty, p[1]))
                else:
                    v = Opaque('downcast', next(_fresh))
            else:
                v = Opaque('index', next(_fresh))
            i += 1
        return v

    def object_field(self, ptr: Ptr, idx: int, ty: str):
        """field of the object behind an opaque pointer.  Atomic cells of `self` (a HashMap) are named state cells."""
        owner = self._owner_type(ptr.what)
        name = self.field_names.get((owner, idx))
        if name is not None and ('Atomic<' in ty):
            return CellRefVal(name)
        return self.fresh_of_type(ty, 'of')

    def _owner_type(self, what: str) -> str:
        w = what.lstrip('&').strip()
        if w.startswith("'"):
            w = w.split(' ', 1)[1] if ' ' in w else w
        if w.startswith('mut '):
            w = w[4:]
        return M.strip_generics(w).split('::')[-1]

    def cell(self, name: str):
        if name not in self.cells:
            ty = self.cell_ty.get(name, 'isize')
            self.cells[name] = self.fresh_of_type(ty, name)
        return self.cells[name]

    def write_place(self, fr: Frame, pl: M.Place, val):
        if not pl.proj:
            fr.locals[pl.local] = val
            return
        # tuple field / through reference
        if len(pl.proj) == 1 and pl.proj[0][0] == 'field':
            base = fr.locals.get(pl.local)
            if isinstance(base, Tup):
                items = list(base.items)
                items[pl.proj[0][1]] = val
                fr.locals[pl.local] = Tup(items)
                return
        if pl.proj[0][0] == 'deref':
            base = fr.locals.get(pl.local)
            if isinstance(base, LocalRef) and len(pl.proj) == 1:
                self.write_place(self.frames[base.frame], base.place, val)
                return
            if isinstance(base, CellRef) and len(pl.proj) == 1:
                self.cells[base.name] = val
                return
        # unmodelled memory write: ignore (conservative for our observation-based queries, recorded)
        self.havoc_calls['<write %s>' % pl] = self.havoc_calls.get('<write %s>' % pl, 0) + 1

    def eval_operand(self, fr: Frame, op: M.Operand):
        if op.kind == 'const':
            return self.eval_const(op.const)
        return self.read_place(fr, op.place)

    # ---- rvalues -----------------------------------------------------------------
    def eval_rvalue(self, fr: Frame, rv: M.Rvalue, dest_ty: str):
        k = rv.kind
        if k == 'use':
            return self.eval_operand(fr, rv.ops[0])
        if k == 'ref' or k == 'rawptr':
            pl = rv.place
            # reference to a named cell of self?
            if pl.proj and pl.proj[0][0] == 'deref' and len(pl.proj) >= 2 and pl.proj[-1][0] == 'field':
                if pl.local not in fr.locals:
                    self.read_place(fr, M.Place(pl.local))
                basev = fr.locals.get(pl.local)
                if isinstance(basev, Ptr) and len(pl.proj) == 2:
                    owner = self._owner_type(basev.what)
                    name = self.field_names.get((owner, pl.proj[1][1]))
                    if name is not None:
                        self.cell_ty.setdefault(name, _cell_type(pl.proj[1][2] or ''))
                        return CellRef(name)
                    return Ptr(fresh_bv('fieldref', 64), '&' + (pl.proj[1][2] or '?'))
            if pl.proj == (('deref',),):
                return fr.locals.get(pl.local) if pl.local in fr.locals else self.read_place(fr, M.Place(pl.local))
            return LocalRef(fr.idx, pl)
        if k == 'binop':
            a = self.eval_operand(fr, rv.ops[0])
            b = self.eval_operand(fr, rv.ops[1])
            return self.binop(rv.op, a, b)
        if k == 'unop':
            a = self.eval_operand(fr, rv.ops[0])
            if rv.op == 'Not':
                if isinstance(a, Bool):
                    return Bool(z3.Not(a.v))
                if isinstance(a, Int):
                    return Int(~a.v, a.ty)
            if rv.op == 'Neg' and isinstance(a, Int):
                return Int(-a.v, a.ty)
            return self.fresh_of_type(dest_ty, 'unop')
        if k == 'cast':
            a = self.eval_operand(fr, rv.ops[0])
            return self.cast(a, rv.ty, rv.op, dest_ty)
        if k == 'discriminant':
            v = self.read_place(fr, rv.place)
            if isinstance(v, Enum):
                w = WIDTH.get(dest_ty.strip(), 64)
                d = v.discr
                if w < 64:
                    d = z3.Extract(w - 1, 0, d)
                return Int(d, dest_ty.strip() if dest_ty.strip() in WIDTH else 'isize')
            return self.fresh_of_type(dest_ty, 'discr')
        if k == 'aggregate':
            if rv.op == 'tuple':
                return Tup([self.eval_operand(fr, o) for _, o in rv.extra])
            if rv.op == 'adt':
                name = M.strip_generics(rv.ty)
                vals = [self.eval_operand(fr, o) for _, o in rv.extra]
                if name.endswith('Option::Some'):
                    return Enum('Option', z3.BitVecVal(1, 64), {1: vals, 0: []})
                if name.endswith('Option::None'):
                    return Enum('Option', z3.BitVecVal(0, 64), {1: [], 0: []})
                if name.endswith('Result::Ok'):
                    return Enum('Result', z3.BitVecVal(0, 64), {0: vals, 1: []})
                if name.endswith('Result::Err'):
                    return Enum('Result', z3.BitVecVal(1, 64), {1: vals, 0: []})
                m = re.search(r'cmp::Ordering::(Less|Equal|Greater)$', name)
                if m:
                    return Enum('std::cmp::Ordering', z3.BitVecVal({'Less': -1, 'Equal': 0, 'Greater': 1}[m.group(1)], 64), {})
                if re.search(r'atomic::Ordering::', name):
                    return Opaque(name, 0)
                return Opaque(name, next(_fresh))
            return Opaque('aggregate', next(_fresh))
        return self.fresh_of_type(dest_ty, 'rv')

    def binop(self, op: str, a, b):
        if isinstance(a, Ptr) and isinstance(b, Ptr):
            if op == 'Eq':
                return Bool(a.v == b.v)
            if op == 'Ne':
                return Bool(a.v != b.v)
        if isinstance(a, Bool) and isinstance(b, Bool):
            if op == 'BitAnd':
                return Bool(z3.And(a.v, b.v))
            if op == 'BitOr':
                return Bool(z3.Or(a.v, b.v))
            if op == 'BitXor':
                return Bool(z3.Xor(a.v, b.v))
            if op == 'Eq':
                return Bool(a.v == b.v)
            if op == 'Ne':
                return Bool(a.v != b.v)
        if not (isinstance(a, Int) and isinstance(b, Int)):
            if op in ('Eq', 'Ne', 'Lt', 'Le', 'Gt', 'Ge'):
                return Bool(fresh_bool('cmp'))
            return Opaque('binop', next(_fresh))
        s = a.signed
        x, y = a.v, b.v
        w = x.size()
        if y.size() != w:
            # shifts may have a different rhs type
            if y.size() < w:
                y = z3.ZeroExt(w - y.size(), y)
            else:
                y = z3.Extract(w - 1, 0, y)
        if op in ('Add', 'AddUnchecked'):
            return Int(x + y, a.ty)
        if op in ('Sub', 'SubUnchecked'):
            return Int(x - y, a.ty)
        if op in ('Mul', 'MulUnchecked'):
            return Int(x * y, a.ty)
        if op == 'Div':
            return Int(x / y if s else z3.UDiv(x, y), a.ty)
        if op == 'Rem':
            return Int(z3.SRem(x, y) if s else z3.URem(x, y), a.ty)
        if op == 'BitAnd':
            return Int(x & y, a.ty)
        if op == 'BitOr':
            return Int(x | y, a.ty)
        if op == 'BitXor':
            return Int(x ^ y, a.ty)
        if op in ('Shl', 'ShlUnchecked'):
            return Int(x << (y & (w - 1)), a.ty)
        if op in ('Shr', 'ShrUnchecked'):
            sh = y & (w - 1)
            return Int((x >> sh) if s else z3.LShR(x, sh), a.ty)
        if op == 'Eq':
            return Bool(x == y)
        if op == 'Ne':
            return Bool(x != y)
        if op == 'Lt':
            return Bool(x < y if s else z3.ULT(x, y))
        if op == 'Le':
            return Bool(x <= y if s else z3.ULE(x, y))
        if op == 'Gt':
            return Bool(x > y if s else z3.UGT(x, y))
        if op == 'Ge':
            return Bool(x >= y if s else z3.UGE(x, y))
        if op in ('AddWithOverflow', 'SubWithOverflow', 'MulWithOverflow'):
            ext = z3.SignExt if s else z3.ZeroExt
            X, Y = ext(w, x), ext(w, y)
            if op == 'AddWithOverflow':
                R = X + Y
                r = x + y
            elif op == 'SubWithOverflow':
                R = X - Y
                r = x - y
            else:
                R = X * Y
                r = x * y
            ov = R != ext(w, r)
            return Tup([Int(r, a.ty), Bool(ov)])
        if op == 'Cmp':
            lt = (x < y) if s else z3.ULT(x, y)
            return Enum('std::cmp::Ordering', z3.If(lt, z3.BitVecVal(-1, 64), z3.If(x == y, z3.BitVecVal(0, 64), z3.BitVecVal(1, 64))), {})
        return Opaque('binop ' + op, next(_fresh))

    def cast(self, a, ty: str, kind: str, dest_ty: str):
        t = int_ty(ty)
        if isinstance(a, Int) and t:
            w0, w1 = a.v.size(), WIDTH[t]
            if w1 == w0:
                return Int(a.v, t)
            if w1 < w0:
                return Int(z3.Extract(w1 - 1, 0, a.v), t)
            return Int((z3.SignExt if a.signed else z3.ZeroExt)(w1 - w0, a.v), t)
        if isinstance(a, Bool) and t:
            return Int(z3.If(a.v, z3.BitVecVal(1, WIDTH[t]), z3.BitVecVal(0, WIDTH[t])), t)
        if isinstance(a, Enum) and t:
            w1 = WIDTH[t]
            return Int(z3.Extract(w1 - 1, 0, a.discr) if w1 < 64 else a.discr, t)
        if isinstance(a, (Ptr, CellRef, LocalRef)):
            return a
        return self.fresh_of_type(dest_ty, 'cast')

    # ---- execution -------------------------------------------------------------------
    def feasible(self, cond) -> bool:
        self.branch_queries += 1
        self.solver.push()
        self.solver.add(cond)
        r = self.solver.check()
        self.solver.pop()
        C.STATS.queries += 1
        if r == z3.unknown:
            raise C.Inconclusive('branch feasibility unknown')
        return r == z3.sat

    def run(self, fn: M.Function, args: List[Any], assumptions: List[Any] = ()) -> List[Obs]:
        for a in assumptions:
            self.solver.add(a)
            self.pc.append(a)

        def on_ret(v):
            self.paths += 1
            self.add_obs(Obs('return', fn.name, [v], list(self.pc), fn=fn.name, path_id=self.paths))
        self._run_fn(fn, args, on_ret)
        return self.obs

    def run_from(self, fn: M.Function, block: int, locals_: Dict[int, Any], assumptions: List[Any] = ()) -> List[Obs]:
        """start in the middle of a function: `locals_` are preset, every other local is a fresh symbol when first read"""
        for a in assumptions:
            self.solver.add(a)
            self.pc.append(a)
        fr = Frame(fn, len(self.frames))
        fr.locals.update(locals_)
        self.frames.append(fr)

        def on_ret(v):
            self.paths += 1
            self.add_obs(Obs('return', fn.name, [v], list(self.pc), fn=fn.name, path_id=self.paths))
        try:
            self._run_block(fr, block, on_ret)
        finally:
            self.frames.pop()
        return self.obs

    def _run_fn(self, fn: M.Function, args: List[Any], on_ret: Callable[[Any], None]):
        fr = Frame(fn, len(self.frames))
        for (pn, _), a in zip(fn.params, args):
            fr.locals[pn] = a
        self.frames.append(fr)
        try:
            self._run_block(fr, 0, on_ret)
        finally:
            self.frames.pop()

    def _run_block(self, fr: Frame, bidx, on_ret):
        while True:
            if self.paths > self.max_paths:
                raise C.Inconclusive('path budget exhausted in %s' % fr.fn.name)
            self.steps += 1
            fn = fr.fn
            b = fn.blocks[bidx]
            fr.visits[bidx] = fr.visits.get(bidx, 0) + 1
            if fr.visits[bidx] > self.loop_bound + 1:
                self.truncated += 1
                self.add_obs(Obs('loop-bound', fn.name, [bidx], list(self.pc), fn=fn.name))
                fr.visits[bidx] -= 1
                return
            try:
                nxt = self._exec_block(fr, b, on_ret)
            finally:
                pass
            if nxt is None:
                fr.visits[bidx] -= 1
                return
            if isinstance(nxt, list):
                # fork: each successor with its condition
                for cond, tgt in nxt:
                    n_pc = len(self.pc)
                    if cond is not None:
                        if not self.feasible(cond):
                            continue
                    self.solver.push()
                    if cond is not None:
                        self.solver.add(cond)
                        self.pc.append(cond)
                    saved_locals = [dict(f.locals) for f in self.frames]
                    saved_visits = [dict(f.visits) for f in self.frames]
                    saved_cells = dict(self.cells)
                    saved_trail = list(self.trail)
                    try:
                        self._run_block(fr, tgt, on_ret)
                    finally:
                        self.trail = saved_trail
                        for f, sl, sv in zip(self.frames, saved_locals, saved_visits):
                            f.locals = sl
                            f.visits = sv
                        self.cells = saved_cells
                        del self.pc[n_pc:]
                        self.solver.pop()
                fr.visits[bidx] -= 1
                return
            # NB: no decrement on straight-line continuation: the visit counts are per path
            bidx = nxt

    def _exec_block(self, fr: Frame, b: M.Block, on_ret):
        fn = fr.fn
        for s in b.stmts:
            if s.kind == 'assign':
                dty = fn.locals.get(s.place.local, '?') if not s.place.proj else (s.place.proj[-1][2] if s.place.proj[-1][0] == 'field' and s.place.proj[-1][2] else '?')
                v = self.eval_rvalue(fr, s.rvalue, dty)
                self.write_place(fr, s.place, v)
            elif s.kind == 'setdiscr':
                pass
        t = b.term
        if t.kind == 'goto':
            return t.target
        if t.kind == 'return':
            on_ret(fr.locals.get(0, Unit()))
            return None
        if t.kind in ('resume', 'unreachable', 'terminate'):
            return None
        if t.kind == 'switch':
            d = self.eval_operand(fr, t.discr)
            if isinstance(d, Bool):
                conds = []
                listed = dict(t.cases)
                # cases on 0 / 1
                out = []
                for v, tgt in t.cases:
                    out.append((d.v if v != 0 else z3.Not(d.v), tgt))
                if t.otherwise is not None:
                    neg = [c for c, _ in out]
                    out.append((z3.Not(z3.Or(neg)) if neg else None, t.otherwise))
                return out
            if isinstance(d, Int):
                out = []
                for v, tgt in t.cases:
                    out.append((d.v == z3.BitVecVal(v, d.v.size()), tgt))
                if t.otherwise is not None:
                    out.append((z3.And([d.v != z3.BitVecVal(v, d.v.size()) for v, _ in t.cases]) if t.cases else None, t.otherwise))
                return out
            # unknown discriminant: explore every arm
            return [(None, tgt) for _, tgt in t.cases] + ([(None, t.otherwise)] if t.otherwise is not None else [])
        if t.kind == 'assert':
            c = self.eval_operand(fr, t.cond)
            if isinstance(c, Bool):
                ok = c.v if t.expected else z3.Not(c.v)
                bad = z3.Not(ok)
                if self.feasible(bad):
                    self.add_obs(Obs('panic', 'assert: ' + t.msg, [], list(self.pc) + [bad], span=t.span, fn=fn.name))
                return [(ok, t.target)]
            return t.target
        if t.kind == 'drop':
            return t.target
        if t.kind == 'call':
            return self._exec_call(fr, b, t, on_ret)
        raise AssertionError(t.kind)

    # ---- calls -----------------------------------------------------------------------
    def _exec_call(self, fr: Frame, b: M.Block, t: M.Terminator, on_ret):
        fn = fr.fn
        name = callee_name(t)
        args = [self.eval_operand(fr, a) for a in t.args]
        dty = fn.locals.get(t.place.local, '?') if not t.place.proj else '?'
        if self.observe(name):
            self.add_obs(Obs('call', name, args, list(self.pc), span=t.span, fn=fn.name, extra={'cells': dict(self.cells), 'locals': dict(fr.locals)}))
            if self.stop_after(name):
                return None
        if name in self.hooks:
            res = self.hooks[name](self, t, args)
            if res is not NotImplemented:
                if isinstance(res, Stop):
                    return None
                self.write_place(fr, t.place, res)
                return t.target
        from .mirpath import is_panic_call
        if is_panic_call(t) or t.target is None:
            self.add_obs(Obs('panic', name, args, list(self.pc), span=t.span, fn=fn.name))
            return None
        res = self.model_call(fr, name, t, args, dty)
        if res is not NotImplemented:
            self.modelled_calls[name] = self.modelled_calls.get(name, 0) + 1
            if isinstance(res, _Fork):
                outs = []
                for cond, val in res.alts:
                    outs.append((cond, val))
                # forks with values: execute each alternative
                for cond, val in outs:
                    if not self.feasible(cond):
                        continue
                    n_pc = len(self.pc)
                    self.solver.push()
                    self.solver.add(cond)
                    self.pc.append(cond)
                    saved_locals = [dict(f.locals) for f in self.frames]
                    saved_visits = [dict(f.visits) for f in self.frames]
                    saved_cells = dict(self.cells)
                    saved_trail = list(self.trail)
                    try:
                        if callable(val):
                            val = val()
                        self.write_place(fr, t.place, val)
                        self._run_block(fr, t.target, on_ret)
                    finally:
                        for f, sl, sv in zip(self.frames, saved_locals, saved_visits):
                            f.locals = sl
                            f.visits = sv
                        self.cells = saved_cells
                        self.trail = saved_trail
                        del self.pc[n_pc:]
                        self.solver.pop()
                return None
            self.write_place(fr, t.place, res)
            return t.target
        targets = self.prog.resolve(name, len(t.args)) if t.callee_op is None else []
        if len(targets) == 1 and self.inline(targets[0].name):
            callee = targets[0]
            place = t.place
            target = t.target

            def cont(v, fr=fr, place=place, target=target):
                # continue the caller after the callee returned (continuation-passing keeps forking simple)
                saved = self.frames[fr.idx + 1:]
                del self.frames[fr.idx + 1:]
                try:
                    self.write_place(fr, place, v)
                    self._run_block(fr, target, on_ret)
                finally:
                    self.frames.extend(saved)
            self._run_fn(callee, args, cont)
            return None
        # havoc
        self.havoc_calls[name] = self.havoc_calls.get(name, 0) + 1
        for a in args:
            if isinstance(a, CellRef):
                self.cells[a.name] = self.fresh_of_type(self.cell_ty.get(a.name, 'isize'), a.name + '_havoc')
            elif isinstance(a, Ptr) and self._owner_type(a.what) == 'HashMap' and targets and any(may_write(self.prog, f) for f in targets):
                # a crate function that receives the map may write any of its cells
                for c in list(self.cells):
                    if c.startswith('__'):
                        continue        # ghost entries of a client analysis
                    ty = self.cell_ty.get(c, 'isize')
                    self.cells[c] = Ptr(fresh_bv(c + '_havoc', 64), c) if ty == 'ptr' else self.fresh_of_type(ty, c + '_havoc')
        self.write_place(fr, t.place, self.fresh_of_type(dty, 'ret_' + name.split('::')[-1]))
        return t.target

    def deref_arg(self, a):
        if isinstance(a, ValRef):
            return a.val
        if isinstance(a, LocalRef):
            return self.read_place(self.frames[a.frame], a.place)
        if isinstance(a, CellRef):
            return self.cell(a.name)
        return a

    def model_call(self, fr: Frame, name: str, t: M.Terminator, args: List[Any], dty: str):
        last = name.rsplit('::', 1)[-1]
        # ---- integer helpers ----
        if re.search(r'(^|::)num::[a-z0-9]+::leading_zeros$|::leading_zeros$', name) or (last == 'leading_zeros'):
            a = self.deref_arg(args[0])
            if isinstance(a, Int):
                w = a.v.size()
                r = z3.BitVecVal(w, 32)
                for i in range(w):
                    r = z3.If(z3.Extract(i, i, a.v) == 1, z3.BitVecVal(w - 1 - i, 32), r)
                return Int(r, 'u32')
        if last == 'next_power_of_two':
            a = self.deref_arg(args[0])
            if isinstance(a, Int):
                w = a.v.size()
                r = z3.BitVecVal(1, w)
                # smallest power of two >= a (a <= 1 -> 1); overflow -> debug panic; we expose it as an obs
                for k in range(1, w):
                    r = z3.If(z3.UGT(a.v, z3.BitVecVal(1 << (k - 1), w)), z3.BitVecVal(1 << k, w), r)
                ovf = z3.UGT(a.v, z3.BitVecVal(1 << (w - 1), w))
                if self.feasible(ovf):
                    self.add_obs(Obs('panic', 'next_power_of_two overflow', [a], list(self.pc) + [ovf], span=t.span, fn=fr.fn.name))
                return Int(r, a.ty)
        if last == 'size_of' and t.callee and '::<' in t.callee:
            ity = int_ty(t.callee[t.callee.rindex('::<') + 3:-1])
            if ity:
                return Int(z3.BitVecVal(WIDTH[ity] // 8, 64), 'usize')
        if last == 'abs':
            a = self.deref_arg(args[0])
            if isinstance(a, Int):
                return Int(z3.If(a.v < 0, -a.v, a.v), a.ty)
        if last in ('saturating_add',):
            a, b2 = self.deref_arg(args[0]), self.deref_arg(args[1])
            if isinstance(a, Int) and isinstance(b2, Int) and not a.signed:
                w = a.v.size()
                s = a.v + b2.v
                return Int(z3.If(z3.ULT(s, a.v), z3.BitVecVal((1 << w) - 1, w), s), a.ty)
        if last in ('min', 'max') and len(args) == 2:
            a, b2 = self.deref_arg(args[0]), self.deref_arg(args[1])
            if isinstance(a, Int) and isinstance(b2, Int):
                lt = (a.v < b2.v) if a.signed else z3.ULT(a.v, b2.v)
                if last == 'min':
                    return Int(z3.If(lt, a.v, b2.v), a.ty)
                return Int(z3.If(lt, b2.v, a.v), a.ty)
        if last == 'cmp' and len(args) == 2:
            a, b2 = self.deref_arg(args[0]), self.deref_arg(args[1])
            if isinstance(a, Int) and isinstance(b2, Int):
                return self.binop('Cmp', a, b2)
        if name.endswith('PartialEq>::eq') or name.endswith('PartialEq>::ne'):
            a, b2 = self.deref_arg(args[0]), self.deref_arg(args[1])
            r = None
            if isinstance(a, Ptr) and isinstance(b2, Ptr):
                r = a.v == b2.v
            elif isinstance(a, Int) and isinstance(b2, Int):
                r = a.v == b2.v
            if r is not None:
                return Bool(r if last == 'eq' else z3.Not(r))
        # ---- Option / Result ----
        if re.search(r'Option::is_none$', name):
            a = self.deref_arg(args[0])
            if isinstance(a, Enum):
                return Bool(a.discr == 0)
        if re.search(r'Option::is_some$', name):
            a = self.deref_arg(args[0])
            if isinstance(a, Enum):
                return Bool(a.discr != 0)
        if re.search(r'Option::(unwrap|expect)$', name):
            a = self.deref_arg(args[0])
            if isinstance(a, Enum):
                bad = a.discr == 0
                if self.feasible(bad):
                    self.add_obs(Obs('panic', 'unwrap on None', [], list(self.pc) + [bad], span=t.span, fn=fr.fn.name))
                pay = a.payload.get(1) or [self.fresh_of_type(dty, 'unwrap')]
                return _Fork([(a.discr != 0, pay[0])])
        if re.search(r'Result::is_ok$', name):
            a = self.deref_arg(args[0])
            if isinstance(a, Enum):
                return Bool(a.discr == 0)
        if re.search(r'Result::is_err$', name):
            a = self.deref_arg(args[0])
            if isinstance(a, Enum):
                return Bool(a.discr != 0)
        # ---- std atomics on named cells ----
        if 'sync::atomic::Atomic' in name and args and isinstance(args[0], CellRef):
            c = args[0].name
            if self.pre_atomic is not None:
                self.pre_atomic(self, c, last)
            cur = self.cell(c)
            if last == 'load':
                return cur
            if last == 'store':
                self.add_obs(Obs('store', c, [args[1]], list(self.pc), span=t.span, fn=fr.fn.name))
                self.cells[c] = args[1]
                return Unit()
            if last == 'swap':
                self.add_obs(Obs('store', c, [args[1]], list(self.pc), span=t.span, fn=fr.fn.name))
                self.cells[c] = args[1]
                return cur
            if last in ('fetch_add', 'fetch_sub') and isinstance(cur, Int):
                d = args[1]
                new = Int(cur.v + d.v if last == 'fetch_add' else cur.v - d.v, cur.ty)
                self.add_obs(Obs('store', c, [new], list(self.pc), span=t.span, fn=fr.fn.name, extra={'rmw': last}))
                self.cells[c] = new
                return cur
            if last in ('compare_exchange', 'compare_exchange_weak') and isinstance(cur, Int):
                exp, new = args[1], args[2]
                cell_name = c

                def ok_val():
                    self.add_obs(Obs('cas', cell_name, [exp, new], list(self.pc), span=t.span, fn=fr.fn.name))
                    self.cells[cell_name] = new
                    return Enum('Result', z3.BitVecVal(0, 64), {0: [cur], 1: []})

                def err_val():
                    return Enum('Result', z3.BitVecVal(1, 64), {0: [], 1: [cur]})
                # sequential semantics: succeeds iff current == expected.  Interference by other threads is modelled by
                # the caller havocking cells between steps where that matters.
                return _Fork([(cur.v == exp.v, ok_val), (cur.v != exp.v, err_val)])
        # ---- flurry's reclaim wrappers on pointer cells ----
        if name.startswith('reclaim::Atomic::') and args and isinstance(args[0], CellRef):
            c = args[0].name
            self.cell_ty.setdefault(c, 'ptr')
            if self.pre_atomic is not None:
                self.pre_atomic(self, c, last)
            if c not in self.cells:
                self.cells[c] = Ptr(fresh_bv(c, 64), c)
            cur = self.cells[c]
            if last == 'load':
                return cur
            if last == 'store':
                self.add_obs(Obs('store', c, [args[1]], list(self.pc), span=t.span, fn=fr.fn.name))
                self.cells[c] = args[1]
                return Unit()
            if last == 'swap':
                self.add_obs(Obs('store', c, [args[1]], list(self.pc), span=t.span, fn=fr.fn.name))
                self.cells[c] = args[1]
                return cur
        if name.endswith('Shared::null'):
            return Ptr(z3.BitVecVal(0, 64), 'null')
        if name.endswith('Shared::is_null'):
            a = self.deref_arg(args[0])
            if isinstance(a, Ptr):
                return Bool(a.v == 0)
        if name.endswith('Shared::deref') or name.endswith('as Deref>::deref') or name.endswith('Shared::as_ref'):
            a = self.deref_arg(args[0])
            if isinstance(a, Ptr):
                return Ptr(a.v, dty)
        if name.endswith('raw::Table::len') or name == 'Table::len':
            a = self.deref_arg(args[0])
            if isinstance(a, Ptr):
                return Int(self.table_len(a.v), 'usize')
        if name.endswith('raw::Table::is_empty'):
            a = self.deref_arg(args[0])
            if isinstance(a, Ptr):
                return Bool(self.table_len(a.v) == 0)
        if name.endswith('Shared::boxed'):
            p = Ptr(fresh_bv('boxed', 64), dty)
            self.solver.add(p.v != 0)
            self.pc.append(p.v != 0)
            return p
        return NotImplemented


class _Fork:
    def __init__(self, alts):
        self.alts = alts


class _Down:
    def __init__(self, enum: Enum, variant: int):
        self.enum = enum
        self.variant = variant


def CellRefVal(name):
    return CellRef(name)


def _variant_index(ty: str, vname: str) -> int:
    return {'Some': 1, 'None': 0, 'Ok': 0, 'Err': 1}.get(vname, 0)


def _cell_type(ty: str) -> str:
    m = re.search(r'atomic::Atomic<([a-z0-9]+)>', ty)
    if m:
        return m.group(1)
    if 'reclaim::Atomic<' in ty:
        return 'ptr'
    return 'isize'


def struct_fields(srcroot: str) -> Dict[Tuple[str, int], str]:
    """(struct name, field index) -> field name, read from the crate's sources (declaration order = MIR field index)."""
    import os
    out: Dict[Tuple[str, int], str] = {}
    for root, _, files in os.walk(os.path.join(srcroot, 'src')):
        for f in files:
            if not f.endswith('.rs'):
                continue
            text = open(os.path.join(root, f)).read()
            for m in re.finditer(r'\bstruct\s+([A-Za-z0-9_]+)\s*(<[^{;]*?>)?\s*(where[^{]*)?\{', text):
                name = m.group(1)
                start = m.end() - 1
                try:
                    end = M.match_close(text, start)
                except Exception:
                    continue
                body = text[start + 1:end]
                # strip comments and attributes
                body = re.sub(r'//[^\n]*', '', body)
                body = re.sub(r'#\[[^\]]*\]', '', body)
                idx = 0
                for part in M.split_top(body, ','):
                    part = part.strip()
                    mm = re.match(r'(?:pub(?:\([a-z]+\))?\s+)?([a-z_][A-Za-z0-9_]*)\s*:', part)
                    if mm:
                        out[(name, idx)] = mm.group(1)
                        idx += 1
    return out


# ---- query helpers -----------------------------------------------------------------

def valid(assumptions: List[Any], claim, label: str, cross: bool = False) -> Tuple[bool, Optional[Any]]:
    """is `claim` implied by `assumptions`?  returns (True, None) or (False, model)."""
    s = z3.Solver()
    for a in assumptions:
        s.add(a)
    s.add(z3.Not(claim))
    r = C.check(s, label, cross=cross)
    if r == 'unsat':
        return True, None
    return False, s.model()


def satisfiable(assumptions: List[Any], label: str) -> Tuple[bool, Optional[Any]]:
    s = z3.Solver()
    for a in assumptions:
        s.add(a)
    r = C.check(s, label)
    return (r == 'sat'), (s.model() if r == 'sat' else None)


_may_write_cache: Dict[int, Dict[str, bool]] = {}


def may_write(prog: Program, fn: M.Function) -> bool:
    """does `fn` (transitively, through crate-local calls, closures and indirect calls) contain a write to a shared cell?"""
    from .mirpath import is_shared_write, is_retire
    cache = _may_write_cache.setdefault(id(prog), {})
    if not cache:
        direct = {}
        calls: Dict[str, List[str]] = {}
        for name, f in prog.fns.items():
            if f.is_const:
                continue
            d = False
            cs = []
            for b in f.blocks.values():
                t = b.term
                if t.kind != 'call':
                    continue
                if t.callee_op is not None:
                    d = True
                    continue
                n = callee_name(t)
                if is_shared_write(n) or is_retire(n):
                    d = True
                for g in prog.resolve(n, len(t.args)):
                    cs.append(g.name)
            for c in prog.closures_of(f):
                cs.append(c.name)
            direct[name] = d
            calls[name] = cs
        changed = True
        while changed:
            changed = False
            for name in direct:
                if not direct[name] and any(direct.get(c, False) for c in calls[name]):
                    direct[name] = True
                    changed = True
        cache.update(direct)
    return cache.get(fn.name, True)
