"""Shared plumbing: scratch copies of /repo, MIR / rustdoc generation with a content-hash cache,
solver front ends (z3 python API, cvc5 and /usr/bin/z3 as cross-check on the SMT-LIB text), evidence files,
known findings and the VIOLATION protocol."""
from __future__ import annotations
import atexit, hashlib, json, os, pickle, shutil, subprocess, sys, tempfile, time
from typing import Dict, List, Optional, Tuple, Any

VERIF = os.path.dirname(os.path.dirname(os.path.abspath(__file__)))
REPO = os.environ.get('VERIF_REPO', '/repo')
CACHE = os.environ.get('VERIF_CACHE', os.path.join(VERIF, '.cache'))
EVIDENCE_DIR = os.environ.get('VERIF_EVIDENCE_DIR') or os.path.join(VERIF, 'evidence')      # override: trial runs against a mutant copy (VERIF_REPO) must not overwrite the committed evidence
REPLAY_DIR = os.environ.get('VERIF_REPLAY_DIR') or os.path.join(VERIF, 'replays')
SEED = int(os.environ.get('VERIF_SEED', '0') or 0)
NIGHTLY = os.environ.get('VERIF_NIGHTLY', 'nightly')

_scratch: Optional[str] = None


def scratch() -> str:
    """per-process scratch directory outside /repo and /verif; removed at exit."""
    global _scratch
    if _scratch is None:
        base = os.environ.get('VERIF_SCRATCH_BASE', '/var/tmp')
        _scratch = tempfile.mkdtemp(prefix='flurry-verif.', dir=base)
        atexit.register(lambda: shutil.rmtree(_scratch, ignore_errors=True))
    return _scratch


def cargo_env(extra: Optional[Dict[str, str]] = None) -> Dict[str, str]:
    env = dict(os.environ)
    env['CARGO_NET_OFFLINE'] = 'true'
    env.setdefault('CARGO_TERM_COLOR', 'never')
    if extra:
        env.update(extra)
    return env


def _src_files() -> List[str]:
    out = []
    for root, dirs, files in os.walk(os.path.join(REPO, 'src')):
        dirs.sort()
        for f in sorted(files):
            out.append(os.path.join(root, f))
    for f in ('Cargo.toml', 'Cargo.lock'):
        p = os.path.join(REPO, f)
        if os.path.exists(p):
            out.append(p)
    return out


_repo_hash: Optional[str] = None


def repo_hash() -> str:
    global _repo_hash
    if _repo_hash is None:
        h = hashlib.sha256()
        for p in _src_files():
            h.update(os.path.relpath(p, REPO).encode())
            with open(p, 'rb') as fh:
                h.update(fh.read())
        _repo_hash = h.hexdigest()[:20]
    return _repo_hash


def snapshot_repo(dest: Optional[str] = None) -> str:
    """copy /repo's *working tree* (no target, no .git) to a scratch directory."""
    dest = dest or os.path.join(scratch(), 'repo')
    if os.path.exists(dest):
        return dest
    subprocess.check_call(['rsync', '-a', '--exclude', 'target', '--exclude', '.git', REPO + '/', dest + '/'])
    return dest


def _cache_dir() -> str:
    d = os.path.join(CACHE, repo_hash())
    os.makedirs(d, exist_ok=True)
    try:
        os.utime(d)          # most recently used caches survive pruning
    except OSError:
        pass
    return d


def _prune_cache(keep: int = 6):
    try:
        ds = [os.path.join(CACHE, d) for d in os.listdir(CACHE) if len(d) == 20]
        ds.sort(key=lambda p: os.path.getmtime(p), reverse=True)
        for d in ds[keep:]:
            shutil.rmtree(d, ignore_errors=True)
    except FileNotFoundError:
        pass


class BuildError(Exception):
    pass


def mir_text(features: Tuple[str, ...] = ()) -> Tuple[str, str]:
    """(MIR text, source root of the snapshot it was generated from). Regenerated whenever /repo's sources change."""
    tag = 'mir' + ('-' + '-'.join(features) if features else '')
    d = _cache_dir()
    path = os.path.join(d, tag + '.txt')
    src = os.path.join(d, 'src-snapshot')
    if not os.path.exists(path) or not os.path.exists(src):
        snap = snapshot_repo()
        tgt = os.path.join(CACHE, 'target-mir')
        cmd = ['cargo', '+' + NIGHTLY, 'rustc', '--offline', '--lib']
        if features:
            cmd += ['--features', ','.join(features)]
        cmd += ['--', '-Zunpretty=mir', '-Zmir-include-spans=yes', '-C', 'debug-assertions=off', '-C', 'overflow-checks=on']
        # make sure rustc really re-runs (an up-to-date fingerprint prints nothing)
        os.utime(os.path.join(snap, 'src', 'lib.rs'))
        t0 = time.time()
        p = subprocess.run(cmd, cwd=snap, env=cargo_env({'CARGO_TARGET_DIR': tgt}), stdout=subprocess.PIPE, stderr=subprocess.PIPE, text=True)
        if p.returncode != 0 or 'fn ' not in p.stdout:
            raise BuildError('MIR dump failed:\n' + p.stderr[-4000:])
        with open(path + '.tmp', 'w') as fh:
            fh.write(p.stdout)
        os.replace(path + '.tmp', path)
        if not os.path.exists(src):
            shutil.copytree(snap, src + '.tmp', dirs_exist_ok=True)
            os.replace(src + '.tmp', src)
        _prune_cache()
        log('mir dump (%s) %.1fs' % (tag, time.time() - t0))
    with open(path) as fh:
        return fh.read(), src


def mir_functions(features: Tuple[str, ...] = ()):
    from . import mir
    tag = 'mirfns' + ('-' + '-'.join(features) if features else '')
    d = _cache_dir()
    pk = os.path.join(d, tag + '.pickle')
    parser_stamp = str(os.path.getmtime(mir.__file__))
    if os.path.exists(pk):
        try:
            with open(pk, 'rb') as fh:
                stamp, fns = pickle.load(fh)
            if stamp == parser_stamp:
                return fns
        except Exception:
            pass
    text, src = mir_text(features)
    fns = mir.parse_mir(text, src)
    consts = mir_consts(text)
    for f in fns.values():
        f.srcroot = src
    fns['__consts__'] = consts  # type: ignore
    with open(pk, 'wb') as fh:
        pickle.dump((parser_stamp, fns), fh)
    return fns


def mir_consts(text: str) -> Dict[str, Tuple[str, str]]:
    """one-line constants: `const NAME: T = const V;`"""
    import re
    out = {}
    for m in re.finditer(r'^const ([A-Za-z_0-9:]+): ([^=]+) = const ([^;]+);', text, re.M):
        out[m.group(1)] = (m.group(2).strip(), m.group(3).strip())
    return out


def rustdoc_json(features: Tuple[str, ...] = ('serde', 'rayon')) -> Dict[str, Any]:
    d = _cache_dir()
    path = os.path.join(d, 'rustdoc-' + '-'.join(features) + '.json')
    if not os.path.exists(path):
        snap = snapshot_repo()
        tgt = os.path.join(CACHE, 'target-doc')
        cmd = ['cargo', '+' + NIGHTLY, 'rustdoc', '--offline', '--lib']
        if features:
            cmd += ['--features', ','.join(features)]
        cmd += ['--', '-Zunstable-options', '--output-format', 'json', '--document-private-items']
        t0 = time.time()
        p = subprocess.run(cmd, cwd=snap, env=cargo_env({'CARGO_TARGET_DIR': tgt}), stdout=subprocess.PIPE, stderr=subprocess.PIPE, text=True)
        out = os.path.join(tgt, 'doc', 'flurry.json')
        if p.returncode != 0 or not os.path.exists(out):
            raise BuildError('rustdoc json failed:\n' + p.stderr[-4000:])
        shutil.copy(out, path)
        log('rustdoc json %.1fs' % (time.time() - t0))
    with open(path) as fh:
        return json.load(fh)


def log(*a):
    print('[fv]', *a, file=sys.stderr, flush=True)


# ----------------------------------------------------------------------------
# solver front ends
# ----------------------------------------------------------------------------

class SolverStats:
    def __init__(self):
        self.queries = 0
        self.sat = 0
        self.unsat = 0
        self.unknown = 0
        self.time = 0.0
        self.cross_checked = 0
        self.cross_disagree = 0
        self.per_query: List[Dict[str, Any]] = []

    def as_dict(self):
        return {'queries': self.queries, 'sat': self.sat, 'unsat': self.unsat, 'unknown': self.unknown,
                'solver_time_s': round(self.time, 3), 'cross_checked_with_second_solver': self.cross_checked,
                'cross_disagreements': self.cross_disagree}


STATS = SolverStats()


class Inconclusive(Exception):
    """solver timeout / unknown / error line / encoder self-check failed: exit 2, never a verdict"""


def check(solver, label: str = '', timeout_ms: int = 120000, cross: bool = False):
    """run solver.check(); returns 'sat' / 'unsat'; raises Inconclusive on unknown.
    With cross=True the same assertions are exported to SMT-LIB2 and decided again by cvc5 (falling back to /usr/bin/z3)."""
    import z3
    solver.set('timeout', timeout_ms)
    t0 = time.time()
    r = solver.check()
    dt = time.time() - t0
    STATS.queries += 1
    STATS.time += dt
    res = str(r)
    if r == z3.sat:
        STATS.sat += 1
    elif r == z3.unsat:
        STATS.unsat += 1
    else:
        STATS.unknown += 1
        raise Inconclusive('solver returned %s on %s (%s)' % (r, label, solver.reason_unknown()))
    if len(STATS.per_query) < 400:
        STATS.per_query.append({'label': label, 'result': res, 'time_s': round(dt, 4)})
    if cross:
        other = cross_check_smt2(solver.to_smt2(), label)
        if other is not None:
            STATS.cross_checked += 1
            if other != res:
                STATS.cross_disagree += 1
                raise Inconclusive('solvers disagree on %s: z3py=%s other=%s' % (label, res, other))
    return res


def cross_check_smt2(smt2: str, label: str = '', timeout_s: int = 60) -> Optional[str]:
    """decide an SMT-LIB2 benchmark with cvc5 (then /usr/bin/z3); None if neither answers."""
    path = os.path.join(scratch(), 'q%d.smt2' % (STATS.queries))
    # z3's to_smt2 omits set-logic; cvc5 needs one
    text = '(set-logic ALL)\n' + smt2
    with open(path, 'w') as fh:
        fh.write(text)
    for cmd in (['cvc5', '--lang', 'smt2', '--tlimit=%d' % (timeout_s * 1000), path], ['/usr/bin/z3', '-T:%d' % timeout_s, path]):
        try:
            p = subprocess.run(cmd, stdout=subprocess.PIPE, stderr=subprocess.PIPE, text=True, timeout=timeout_s + 10)
        except subprocess.TimeoutExpired:
            continue
        out = p.stdout.strip().split('\n')
        if any(l.startswith('(error') for l in out):
            continue
        if out and out[0] in ('sat', 'unsat'):
            return out[0]
    return None


# ----------------------------------------------------------------------------
# evidence / violations / known findings
# ----------------------------------------------------------------------------

class Check:
    """one run of one property's check. Collects coverage and writes the evidence file."""

    def __init__(self, prop: str, tier: str, level: str):
        self.prop = prop
        self.tier = tier
        self.level = level
        self.t0 = time.time()
        self.coverage: Dict[str, Any] = {}
        self.assumptions: List[str] = []
        self.samples: List[Any] = []
        self.violations: List[Tuple[str, str]] = []   # (key, replay path)
        self.known_hit: List[str] = []
        self.obligations: List[Dict[str, Any]] = []
        self.functions_encoded: Dict[str, str] = {}
        self.bounds: Dict[str, Any] = {}
        self.inconclusive: List[str] = []
        self.known = load_known_findings().get(prop, [])

    # -- obligations ---------------------------------------------------------
    def obligation(self, name: str, result: str, nontrivial: bool = True, **kw):
        d = {'name': name, 'result': result, 'nontrivial': bool(nontrivial)}
        d.update(kw)
        self.obligations.append(d)

    def encoded(self, fn):
        self.functions_encoded[fn.name] = fn.text_hash

    def sample(self, s):
        if len(self.samples) < 12:
            self.samples.append(s)

    # -- violations ------------------------------------------------------------
    def violation(self, key: str, description: str, replay_text: str, replay_name: Optional[str] = None):
        """report a confirmed violation. `key` identifies the specific failing call site / input; if it is listed in
        known-findings.txt the line KNOWN-FINDING is printed instead."""
        for k in self.known:
            if k['key'] == key:
                line = 'KNOWN-FINDING: property=%s %s' % (self.prop, k['text'])
                if line not in self.known_hit:
                    self.known_hit.append(line)
                    print(line, flush=True)
                return
        if any(k == key for k, _ in self.violations):
            return
        d = os.path.join(REPLAY_DIR, self.prop)
        os.makedirs(d, exist_ok=True)
        name = replay_name or (hashlib.sha1(key.encode()).hexdigest()[:10] + '.txt')
        path = os.path.join(d, name)
        with open(path, 'w') as fh:
            fh.write('# property %s\n# key %s\n# %s\n' % (self.prop, key, description.replace('\n', '\n# ')))
            fh.write(replay_text)
        self.violations.append((key, path))
        print('VIOLATION property=%s replay=%s' % (self.prop, path), flush=True)
        print('  ' + description.replace('\n', '\n  '), flush=True)

    # -- finish ----------------------------------------------------------------
    def finish(self, extra_cov: Optional[Dict[str, Any]] = None) -> int:
        os.makedirs(EVIDENCE_DIR, exist_ok=True)
        n = len(self.obligations)
        nontriv = len({o['name'] for o in self.obligations if o.get('nontrivial')})
        cov: Dict[str, Any] = {
            'evaluations': max(n, 1),
            'distinct_nontrivial': nontriv,
            'rule': 'one evaluation = one solver query (or query family) discharged for a named obligation generated from /repo\'s '
                    'current MIR/rustdoc output; non-trivial = its assertion cone mentions at least one symbolic input or symbolic '
                    'path/schedule choice and its reachability (vacuity) twin was satisfiable; distinct by obligation name',
            'samples': self.samples or [o for o in self.obligations[:5]],
            'obligations': n,
            'discharged': len([o for o in self.obligations if o['result'] in ('unsat', 'holds', 'sat-expected')]),
            'functions_encoded': self.functions_encoded,
            'bounds': self.bounds,
            'solver': STATS.as_dict(),
            'queries_sample': STATS.per_query[:25],
            'repo_tree_hash': repo_hash(),
            'obligation_list': self.obligations[:200],
            'known_findings_reported': self.known_hit,
            'inconclusive': self.inconclusive,
        }
        if extra_cov:
            cov.update(extra_cov)
        cov.update(self.coverage)
        if self.level == 'model_checking':
            cov.setdefault('states', max(1, int(cov.get('states', 0)) or n))
            cov.setdefault('transitions', max(1, int(cov.get('transitions', 0)) or n))
            cov.setdefault('traces_validated_against_impl', 0)
        if self.level == 'other':
            cov.setdefault('explanation', '')
        ev = {
            'property_id': self.prop, 'tier': self.tier, 'seed': SEED, 'level': self.level,
            'coverage': cov, 'assumptions': self.assumptions, 'wall_s': round(time.time() - self.t0, 2),
            'violations': len(self.violations),
        }
        with open(os.path.join(EVIDENCE_DIR, self.prop + '.json'), 'w') as fh:
            json.dump(ev, fh, indent=1, default=str)
        if self.violations:
            return 1
        if self.inconclusive:
            for m in self.inconclusive:
                print('INCONCLUSIVE property=%s %s' % (self.prop, m), flush=True)
            return 2
        print('OK property=%s tier=%s obligations=%d queries=%d solver_s=%.2f wall_s=%.1f' % (
            self.prop, self.tier, n, STATS.queries, STATS.time, time.time() - self.t0), flush=True)
        return 0


def load_known_findings() -> Dict[str, List[Dict[str, str]]]:
    """known-findings.txt lines:
         known: property=C03 key=<key> <free text>
         fixed: property=C09 <commit> <what failed>          (suppresses nothing)
    """
    out: Dict[str, List[Dict[str, str]]] = {}
    p = os.path.join(VERIF, 'known-findings.txt')
    if not os.path.exists(p):
        return out
    import re
    for line in open(p):
        line = line.strip()
        m = re.match(r'known: property=(C\d+) key=(\S+) (.*)$', line)
        if m:
            out.setdefault(m.group(1), []).append({'key': m.group(2), 'text': m.group(3)})
    return out
