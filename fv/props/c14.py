"""C14 - capacity contract: room as requested, power-of-two growth, no spurious resize.

Value obligations decided by z3 over the MIR of presize / with_capacity_and_hasher / try_presize / init_table /
add_count / treeify_bin / transfer (prefix) of the current tree, for ALL 2^64 requested capacities, all 64-bit counts and
thresholds and every power-of-two table length: the operand handed to `Table::new` and the value stored to `size_ctl`
are terms over the symbolic inputs, the negated contract is asserted over them.  Counterexamples are replayed natively
(table length read through the injected inspector) before being reported.
"""
from __future__ import annotations
import re
from typing import List, Any, Dict
import z3
from .. import common as C, mir as M, mirpath as P, mirsym as S, native

MAXCAP = 1 << 30


def bv(x, w=64):
    return z3.BitVecVal(x, w)


def is_pow2(x):
    return z3.And(x != 0, (x & (x - 1)) == 0)


def mk_engine(prog, fields, inline=(), observe=(), loop_bound=1, stop_after=()):
    e = S.Engine(prog, inline=lambda n: any(n.endswith(x) for x in inline), observe=lambda n: any(n.endswith(x) for x in observe),
                 field_names=fields, loop_bound=loop_bound)
    e.stop_after = lambda n: any(n.endswith(x) for x in stop_after)
    return e


def self_ptr(name='self', mut=False):
    return S.Ptr(z3.BitVec(name, 64), '&mut map::HashMap<K, V, S>' if mut else '&map::HashMap<K, V, S>')


def guard_ptr():
    return S.Ptr(z3.BitVec('guard', 64), "&Guard<'_>")


def model_ints(mdl, **terms) -> Dict[str, int]:
    out = {}
    for k, t in terms.items():
        v = mdl.eval(t, model_completion=True)
        out[k] = v.as_signed_long() if k.startswith('s_') else v.as_long()
    return out


def run(tier: str) -> int:
    chk = C.Check('C14', tier, 'model_checking')
    prog = P.Program(C.mir_functions())
    src = next(iter(prog.fns.values())).srcroot
    fields = S.struct_fields(src)
    cross = True  # every query of this check is small: always cross-check with cvc5
    chk.bounds = {'requested_capacity': 'all 2^64 values (bit-vector)', 'count/size_ctl': 'all 64-bit values subject to the stated state invariants',
                  'table_length': 'every power of two 1..2^30 (symbolic)', 'loop_unrolling': 'retry loops of try_presize/add_count/init_table unrolled 2x; later iterations start from havocked cells',
                  'threads': 1}
    chk.assumptions = [
        'sequential execution of each function (a CAS succeeds iff the cell holds the expected value); racing reservations are excluded by the property text',
        'state invariant assumed on entry: table null => size_ctl = 0 (flurry never stores an initial capacity in size_ctl); table non-null => its length is a power of two <= 2^30 and 0 <= count',
        'callees not inlined (transfer from add_count/try_presize, Table::new, Shared::boxed, yield_now) are havoc: they may change every cell of the map',
        'std models: leading_zeros, next_power_of_two, min/max, abs, cmp, Option/Result predicates, atomics on named cells (bit-precise)',
    ]
    findings: List[tuple] = []      # (key, description, model dict)
    nstates = 0

    def oblige(name, assumptions, claim, on_fail=None):
        ok, mdl = S.valid(assumptions, claim, 'C14 ' + name, cross=cross)
        chk.obligation(name, 'unsat' if ok else 'sat')
        if not ok:
            findings.append((name, mdl, on_fail, assumptions, claim))
        return ok

    # ------------------------------------------------------------------ A: presize / with_capacity
    f = prog.get('map::HashMap::presize')
    chk.encoded(f)
    size = z3.BitVec('size', 64)
    eng = mk_engine(prog, fields, observe=('raw::Table::new',))
    eng.cells['size_ctl'] = S.Int(bv(0), 'isize')
    eng.cell_ty['size_ctl'] = 'isize'
    eng.cells['table'] = S.Ptr(bv(0), 'table')
    eng.cell_ty['table'] = 'ptr'
    obs = eng.run(f, [self_ptr(mut=True), S.Int(size, 'usize')])
    nstates += eng.steps
    news = [o for o in obs if o.kind == 'call' and o.name.endswith('Table::new')]
    stores = [o for o in obs if o.kind == 'store' and o.name == 'size_ctl']
    panics = [o for o in obs if o.kind == 'panic']
    chk.obligation('presize: reaches Table::new (vacuity witness)', 'sat-expected' if news else 'violated', nontrivial=False)
    want = size + z3.LShR(size, 1) + 1
    for i, o in enumerate(news):
        n = o.args[0].v
        pc = o.pc
        chk.sample({'function': 'presize', 'observation': 'argument of Table::new', 'term': str(z3.simplify(n))[:300], 'path_condition': [str(c)[:120] for c in pc]})
        oblige('presize#%d: bins is a power of two' % i, pc, is_pow2(n), ('cap', size, n))
        oblige('presize#%d: bins <= 2^30' % i, pc, z3.ULE(n, bv(MAXCAP)), ('cap', size, n))
        oblige('presize#%d: bins >= 1.5*c+1 unless capped at 2^30' % i, pc, z3.Or(n == bv(MAXCAP), z3.And(z3.ULT(size, bv(MAXCAP // 2)), z3.UGE(n, want))), ('cap', size, n))
        # (not an obligation: the property does not forbid a longer table) is it the least such power of two?
        least_ok, _ = S.valid(pc, z3.Or(z3.UGE(size, bv(MAXCAP // 2)), z3.ULT(z3.LShR(n, 1), want), n == 1), 'C14 presize#%d least power of two (information)' % i)
        chk.sample({'function': 'presize', 'information': 'bins is the least power of two >= 1.5c+1', 'holds': bool(least_ok)})
        oblige('presize#%d: c entries stay below the growth threshold (c < 0.75*bins) for c < 0.75*2^30' % i, pc,
               z3.Implies(z3.ULT(size, bv(MAXCAP - MAXCAP // 4)), z3.ULT(size, n - z3.LShR(n, 2))), ('cap', size, n))
    for i, o in enumerate(stores):
        # the threshold published is 0.75 * (the length passed to Table::new on the same path)
        prev = [eng.obs[j] for j in o.trail if eng.obs[j].kind == 'call' and eng.obs[j].name.endswith('Table::new')]
        if prev:
            n = prev[-1].args[0].v
            oblige('presize: size_ctl := 0.75*bins (store #%d)' % i, o.pc, o.args[0].v == n - z3.LShR(n, 2), ('cap', size, n))
    for i, o in enumerate(panics):
        ok, mdl = S.satisfiable(o.pc, 'C14 presize panic#%d reachable?' % i)
        chk.obligation('presize: no panic for any capacity (%s @ %s)' % (o.name[:50], o.span), 'unsat' if not ok else 'sat')
        if ok:
            findings.append(('presize panics: %s' % o.name, mdl, ('cap', size, None), o.pc, z3.BoolVal(False)))
    # with_capacity(0) allocates nothing
    f2 = prog.get('map::HashMap::with_capacity_and_hasher')
    chk.encoded(f2)
    cap = z3.BitVec('capacity', 64)
    eng = mk_engine(prog, fields, observe=('raw::Table::new', 'HashMap::presize'))
    obs = eng.run(f2, [S.Int(cap, 'usize'), S.Opaque('S', 0)])
    nstates += eng.steps
    pres = [o for o in obs if o.kind == 'call' and (o.name.endswith('::presize') or o.name.endswith('Table::new'))]
    chk.obligation('with_capacity: presize reachable for c>0 (vacuity witness)', 'sat-expected' if pres else 'violated', nontrivial=False)
    for i, o in enumerate(pres):
        oblige('with_capacity(0) allocates no table (#%d)' % i, o.pc, cap != 0, ('cap0', cap, None))
        if o.name.endswith('::presize'):
            oblige('with_capacity(c) presizes for exactly c (#%d)' % i, o.pc, o.args[1].v == cap, ('cap', cap, None))

    # ------------------------------------------------------------------ B: init_table
    f = prog.get('map::HashMap::init_table')
    chk.encoded(f)
    eng = mk_engine(prog, fields, observe=('raw::Table::new',))
    sc0 = z3.BitVec('sc0', 64)
    eng.cells['size_ctl'] = S.Int(sc0, 'isize')
    eng.cell_ty['size_ctl'] = 'isize'
    eng.cells['table'] = S.Ptr(bv(0), 'table')
    eng.cell_ty['table'] = 'ptr'
    obs = eng.run(f, [self_ptr(), guard_ptr()])
    nstates += eng.steps
    news = [o for o in obs if o.kind == 'call' and o.name.endswith('Table::new')]
    chk.obligation('init_table: reaches Table::new (vacuity witness)', 'sat-expected' if news else 'violated', nontrivial=False)
    for i, o in enumerate(news):
        n = o.args[0].v
        oblige('init_table#%d: default table has 16 bins when no capacity is pending' % i, o.pc + [sc0 == 0], n == 16, ('init', sc0, n))
        oblige('init_table#%d: bins = pending size_ctl if positive else 16' % i, o.pc, n == z3.If(sc0 > 0, sc0, bv(16)), ('init', sc0, n))
    for i, o in enumerate([o for o in obs if o.kind == 'store' and o.name == 'size_ctl']):
        prev = [eng.obs[j] for j in o.trail if eng.obs[j].kind == 'call' and eng.obs[j].name.endswith('Table::new')]
        if prev:
            n = prev[-1].args[0].v
            oblige('init_table: size_ctl := 0.75*bins (store #%d)' % i, o.pc, o.args[0].v == n - (n >> 2), ('init', sc0, n))

    # ------------------------------------------------------------------ C: try_presize (reserve)
    f = prog.get('map::HashMap::try_presize')
    chk.encoded(f)
    eng = mk_engine(prog, fields, inline=('resize_stamp',), observe=('raw::Table::new', 'HashMap::transfer'), loop_bound=1)
    size = z3.BitVec('size', 64)
    sc0 = z3.BitVec('sc0', 64)
    tab0 = z3.BitVec('table0', 64)
    eng.cells['size_ctl'] = S.Int(sc0, 'isize')
    eng.cell_ty['size_ctl'] = 'isize'
    eng.cells['table'] = S.Ptr(tab0, 'table')
    eng.cell_ty['table'] = 'ptr'
    tl = eng.table_len
    inv = [z3.Implies(tab0 == 0, sc0 == 0), z3.Implies(tab0 != 0, z3.And(is_pow2(tl(tab0)), z3.ULE(tl(tab0), bv(MAXCAP)))),
           z3.Implies(z3.And(tab0 != 0, sc0 >= 0), sc0 == tl(tab0) - z3.LShR(tl(tab0), 2))]
    obs = eng.run(f, [self_ptr(), S.Int(size, 'usize'), guard_ptr()], inv)
    nstates += eng.steps
    news = [o for o in obs if o.kind == 'call' and o.name.endswith('Table::new')]
    trs = [o for o in obs if o.kind == 'call' and o.name.endswith('::transfer')]
    chk.obligation('try_presize: reaches Table::new and transfer (vacuity witness)', 'sat-expected' if (news and trs) else 'violated', nontrivial=False)
    want = size + z3.LShR(size, 1) + 1
    for i, o in enumerate(news):
        if any(eng.obs[j].kind == 'call' and eng.obs[j].name.endswith('::transfer') for j in o.trail):
            continue   # after a havocked transfer the cells are arbitrary; covered by the first-iteration obligations
        n = o.args[0].v
        oblige('try_presize#%d: fresh table is a power of two <= 2^30' % i, o.pc, z3.And(is_pow2(n), z3.ULE(n, bv(MAXCAP))), ('reserve', size, n))
        oblige('try_presize#%d: fresh table >= 1.5*c+1 unless capped' % i, o.pc, z3.Or(n == bv(MAXCAP), z3.And(z3.ULT(size, bv(MAXCAP // 2)), z3.UGE(n, want))), ('reserve', size, n))
    for i, o in enumerate(trs):
        if any(eng.obs[j].kind == 'call' and eng.obs[j].name.endswith('::transfer') for j in o.trail):
            continue
        t = o.args[1].v
        oblige('try_presize#%d: resizes only an initialised table below 2^30 whose threshold is below the request' % i, o.pc,
               z3.And(t != 0, z3.ULT(tl(t), bv(MAXCAP)), sc0 >= 0), ('reserve', size, None))
        oblige('try_presize#%d: initiates (next table null)' % i, o.pc, o.args[2].v == 0, ('reserve', size, None))
    rets = [o for o in obs if o.kind == 'return']
    for i, o in enumerate(rets):
        if any(eng.obs[j].kind == 'call' and eng.obs[j].name.endswith('::transfer') for j in o.trail):
            continue
        # returned without (or after) own work and without havoc: the request is satisfied by the cells as they are now
        cells = eng  # final cells are not kept per obs; use the path condition, which contains the exit test on the loaded values
        oblige('try_presize ret#%d: returns only if resizing elsewhere, at max length, or the request stays below the growth threshold (c < size_ctl)' % i, o.pc + [z3.ULT(size, bv(MAXCAP // 2)), tab0 != 0],
               z3.Or(sc0 < 0, z3.UGE(tl(tab0), bv(MAXCAP)), z3.ULT(size, sc0)), ('reserve', (size, sc0, tl(tab0)), None))
    # reserve(additional) asks for len()+additional
    f = prog.get('map::HashMap::reserve')
    chk.encoded(f)
    eng = mk_engine(prog, fields, inline=('HashMap::len',), observe=('HashMap::try_presize',))
    add = z3.BitVec('additional', 64)
    cnt = z3.BitVec('count0', 64)
    eng.cells['count'] = S.Int(cnt, 'isize')
    eng.cell_ty['count'] = 'isize'
    obs = eng.run(f, [self_ptr(), S.Int(add, 'usize'), guard_ptr()])
    nstates += eng.steps
    tp = [o for o in obs if o.kind == 'call' and o.name.endswith('try_presize')]
    chk.obligation('reserve: reaches try_presize (vacuity witness)', 'sat-expected' if tp else 'violated', nontrivial=False)
    for i, o in enumerate(tp):
        oblige('reserve#%d: requests len()+additional' % i, o.pc + [cnt >= 0, z3.ULT(cnt, bv(1 << 40)), z3.ULT(add, bv(1 << 40))], o.args[1].v == cnt + add, ('reserve', add, None))

    # ------------------------------------------------------------------ D: add_count (growth only at the threshold; never on removal)
    f = prog.get('map::HashMap::add_count')
    chk.encoded(f)
    eng = mk_engine(prog, fields, inline=('resize_stamp',), observe=('HashMap::transfer',), loop_bound=1)
    n = z3.BitVec('n', 64)
    hint = S.Enum('Option', z3.BitVec('hint_d', 64), {1: [S.Int(z3.BitVec('hint', 64), 'usize')], 0: []})
    cnt = z3.BitVec('count0', 64)
    sc0 = z3.BitVec('sc0', 64)
    tab0 = z3.BitVec('table0', 64)
    eng.cells['count'] = S.Int(cnt, 'isize')
    eng.cells['size_ctl'] = S.Int(sc0, 'isize')
    eng.cells['table'] = S.Ptr(tab0, 'table')
    eng.cell_ty.update({'count': 'isize', 'size_ctl': 'isize', 'table': 'ptr'})
    tl = eng.table_len
    BIG = bv(1 << 40)
    inv = [z3.Or(hint.discr == 0, hint.discr == 1), cnt >= 0, cnt < BIG, n > -BIG, n < BIG, cnt + n >= 0,
           z3.Implies(tab0 != 0, z3.And(is_pow2(tl(tab0)), z3.ULE(tl(tab0), bv(MAXCAP))))]
    obs = eng.run(f, [self_ptr(), S.Int(n, 'isize'), hint, guard_ptr()], inv)
    nstates += eng.steps
    first_tr = [o for o in obs if o.kind == 'call' and o.name.endswith('::transfer')
                and not any(eng.obs[j].kind == 'call' and eng.obs[j].name.endswith('::transfer') for j in o.trail)]
    chk.obligation('add_count: reaches transfer (vacuity witness)', 'sat-expected' if first_tr else 'violated', nontrivial=False)
    for i, o in enumerate(first_tr):
        chk.sample({'function': 'add_count', 'observation': 'first call of transfer on a path', 'span': o.span, 'path_condition': [str(z3.simplify(c))[:160] for c in o.pc[len(inv):]]})
        oblige('add_count#%d: the table grows only when the updated count has reached the threshold (count0+n >= size_ctl)' % i, o.pc + [sc0 >= 0],
               cnt + n >= sc0, ('count', (n, cnt, sc0, tl(tab0)), None))
        oblige('add_count#%d: a removal (n<0) below the threshold never starts or joins a resize' % i, o.pc + [n < 0, cnt < sc0], z3.BoolVal(False),
               ('count', (n, cnt, sc0, tl(tab0)), None))
        oblige('add_count#%d: never grows past 2^30' % i, o.pc, z3.And(o.args[1].v != 0, z3.ULT(tl(o.args[1].v), bv(MAXCAP))), ('count', (n, cnt, sc0, tl(tab0)), None))
        oblige('add_count#%d: only when the caller passed a resize hint' % i, o.pc, hint.discr == 1, ('count', (n, cnt, sc0, tl(tab0)), None))
    st = [o for o in obs if o.kind == 'store' and o.name == 'count']
    for i, o in enumerate(st):
        oblige('add_count: count := count0 + n (store #%d)' % i, o.pc, o.args[0].v == cnt + n, ('count', (n, cnt, sc0, tl(tab0)), None))

    # ------------------------------------------------------------------ E: treeify_bin in a short table only reserves
    f = prog.get('map::HashMap::treeify_bin')
    chk.encoded(f)
    eng = mk_engine(prog, fields, observe=('HashMap::try_presize', 'TreeBin::new', 'Table::store_bin'), loop_bound=1)
    tabp = S.Ptr(z3.BitVec('tab', 64), '&raw::Table<K, V>')
    obs = eng.run(f, [self_ptr(), tabp, S.Int(z3.BitVec('index', 64), 'usize'), guard_ptr()], [is_pow2(eng.table_len(tabp.v)), z3.ULE(eng.table_len(tabp.v), bv(MAXCAP))])
    nstates += eng.steps
    ln = eng.table_len(tabp.v)
    tp = [o for o in obs if o.kind == 'call' and o.name.endswith('try_presize')]
    tb = [o for o in obs if o.kind == 'call' and (o.name.endswith('TreeBin::new') or o.name.endswith('store_bin'))]
    chk.obligation('treeify_bin: both arms reachable (vacuity witness)', 'sat-expected' if (tp and tb) else 'violated', nontrivial=False)
    for i, o in enumerate(tp):
        oblige('treeify_bin#%d: an overfull bin in a table shorter than 64 asks for exactly twice the length' % i, o.pc, z3.And(z3.ULT(ln, bv(64)), o.args[1].v == ln << 1), ('treeify', ln, None))
    for i, o in enumerate(tb):
        oblige('treeify_bin#%d: bins are converted to trees only in tables of >= 64 bins' % i, o.pc, z3.UGE(ln, bv(64)), ('treeify', ln, None))

    # ------------------------------------------------------------------ F: transfer allocates exactly twice the length
    f = prog.get('map::HashMap::transfer')
    chk.encoded(f)
    eng = mk_engine(prog, fields, observe=('raw::Table::new',), stop_after=('raw::Table::new',), loop_bound=1)
    tabp = S.Ptr(z3.BitVec('table', 64), "reclaim::Shared<'_, raw::Table<K, V>>")
    ntp = S.Ptr(z3.BitVec('next_table_arg', 64), "reclaim::Shared<'_, raw::Table<K, V>>")
    ln = eng.table_len(tabp.v)
    obs = eng.run(f, [self_ptr(), tabp, ntp, guard_ptr()], [tabp.v != 0, is_pow2(ln), z3.ULT(ln, bv(MAXCAP))])
    nstates += eng.steps
    news = [o for o in obs if o.kind == 'call' and o.name.endswith('Table::new')]
    chk.obligation('transfer: reaches Table::new (vacuity witness)', 'sat-expected' if news else 'violated', nontrivial=False)
    for i, o in enumerate(news):
        nn = o.args[0].v
        oblige('transfer#%d: the new table has exactly twice the length' % i, o.pc, nn == ln << 1, ('grow', ln, nn))
        oblige('transfer#%d: new length is a power of two <= 2^30 and larger than the old one (never shrinks)' % i, o.pc,
               z3.And(is_pow2(nn), z3.ULE(nn, bv(MAXCAP)), z3.UGT(nn, ln)), ('grow', ln, nn))
        oblige('transfer#%d: allocates only when initiating (next table argument null)' % i, o.pc, ntp.v == 0, ('grow', ln, nn))

    chk.coverage['states'] = nstates
    chk.coverage['transitions'] = nstates
    chk.coverage['havoc_callees'] = sorted(set(eng.havoc_calls))

    # ------------------------------------------------------------------ replay of counterexamples
    if findings:
        confirm(chk, findings)
    return chk.finish()


REPLAY = r'''
use flurry::HashMap;
use flurry::verif_inspect as vi;
#[derive(Clone, Default)]
struct Ident;
impl std::hash::BuildHasher for Ident { type Hasher = IdH; fn build_hasher(&self) -> IdH { IdH(0) } }
struct IdH(u64);
impl std::hash::Hasher for IdH {
    fn finish(&self) -> u64 { self.0 }
    fn write(&mut self, b: &[u8]) { for x in b { self.0 = (self.0 << 8) | *x as u64; } }
    fn write_u64(&mut self, v: u64) { self.0 = v; }
}
fn main() {
    let a: Vec<String> = std::env::args().skip(1).collect();
    match a[0].as_str() {
        // with_capacity(c): bins, threshold; then insert c collision-free keys and report whether the table grew
        "cap" => {
            let c: usize = a[1].parse().unwrap();
            let m: HashMap<u64, u8, Ident> = HashMap::with_capacity_and_hasher(c, Ident);
            let bins = vi::table_len(&m);
            let sc = vi::size_ctl(&m);
            let g = m.guard();
            for k in 0..c as u64 { m.insert(k, 0, &g); }
            println!("cap c={} bins={} size_ctl={} bins_after_c_inserts={}", c, bins, sc, vi::table_len(&m));
        }
        // removal at count0 in a table: does any removing operation grow it?
        "count" => {
            let cap: usize = a[1].parse().unwrap();      // requested capacity giving the table length
            let count0: u64 = a[2].parse().unwrap();
            for op in ["remove", "compute_none", "retain", "clear_one"] {
                let m: HashMap<u64, u8, Ident> = HashMap::with_capacity_and_hasher(cap, Ident);
                let g = m.guard();
                let mut grew_on_insert = false;
                let b0 = vi::table_len(&m);
                for k in 0..count0 { m.insert(k, 0, &g); if vi::table_len(&m) != b0 { grew_on_insert = true; } }
                let before = vi::table_len(&m);
                match op {
                    "remove" => { m.remove(&0, &g); }
                    "compute_none" => { m.compute_if_present(&0, |_, _| None, &g); }
                    "retain" => { m.retain(|k, _| *k != 0, &g); }
                    _ => { m.remove_entry(&0, &g); }
                }
                println!("count op={} bins_before={} bins_after={} count0={} grew_on_insert={}", op, before, vi::table_len(&m), count0, grew_on_insert);
            }
        }
        "reserve" => {
            let extra: usize = a[1].parse().unwrap();
            let m: HashMap<u64, u8, Ident> = HashMap::with_hasher(Ident);
            let g = m.guard();
            m.insert(u64::MAX, 0, &g);
            m.reserve(extra, &g);
            let bins = vi::table_len(&m);
            for k in 0..extra as u64 { m.insert(k, 0, &g); }
            println!("reserve a={} bins={} bins_after={}", extra, bins, vi::table_len(&m));
        }
        // reserve on an initialised table: L-bin table (requested capacity `cap`), `pre` entries, reserve(a), then a inserts
        "reserve2" => {
            let cap: usize = a[1].parse().unwrap();
            let pre: u64 = a[2].parse().unwrap();
            let add: u64 = a[3].parse().unwrap();
            let m: HashMap<u64, u8, Ident> = HashMap::with_capacity_and_hasher(cap, Ident);
            let g = m.guard();
            for k in 0..pre { m.insert(k, 0, &g); }
            let b0 = vi::table_len(&m);
            m.reserve(add as usize, &g);
            let b1 = vi::table_len(&m);
            for k in pre..pre + add { m.insert(k, 0, &g); }
            println!("reserve2 bins0={} pre={} add={} bins_after_reserve={} bins_after_inserts={}", b0, pre, add, b1, vi::table_len(&m));
        }
        // 12 keys with distinct hashes that share bin 0 in tables of 16..256 bins
        "treeify" => {
            for cap in [6usize, 12, 24, 48, 96] {
                let m: HashMap<u64, u8, Ident> = HashMap::with_capacity_and_hasher(cap, Ident);
                let g = m.guard();
                let b0 = vi::table_len(&m);
                let mut tree_in_short_table = false;
                for i in 1..=12u64 {
                    m.insert(i << 20, 0, &g);
                    let has_tree = vi::dump(&m).iter().any(|l| l.contains(" T "));
                    if has_tree && vi::table_len(&m) < 64 { tree_in_short_table = true; }
                }
                let has_tree = vi::dump(&m).iter().any(|l| l.contains(" T "));
                println!("treeify bins0={} bins_after={} has_tree={} tree_in_short_table={}", b0, vi::table_len(&m), has_tree, tree_in_short_table);
            }
        }
        _ => {}
    }
}
'''


def cap_for_bins(L: int) -> int:
    """a requested capacity for which the specification yields L bins"""
    for c in range(1, L + 1):
        want = c + c // 2 + 1
        n = 1
        while n < want:
            n <<= 1
        if n == L:
            return c
    return 1


def small_model(assumptions, claim, extra):
    """re-solve the failing obligation with size bounds that make a native replay possible"""
    s = z3.Solver()
    for a in assumptions:
        s.add(a)
    s.add(z3.Not(claim))
    for e in extra:
        s.add(e)
    if C.check(s, 'C14 small witness') == 'sat':
        return s.model()
    return None


def confirm(chk, findings):
    """native replay of the solver's witnesses.  A witness that does not reproduce is an encoder defect (exit 2)."""
    for name, mdl, info, assumptions, claim in findings:
        kind = info[0] if info else None
        try:
            if kind == 'reserve' and isinstance(info[1], tuple):
                size, sc0, L = info[1]
                m2 = small_model(assumptions, claim, [z3.ULE(L, bv(1 << 16)), z3.UGE(L, bv(2)), z3.ULE(size, bv(1 << 16))]) or mdl
                Lv = m2.eval(L, model_completion=True).as_long()
                sv = m2.eval(size, model_completion=True).as_long()
                if Lv > (1 << 16) or sv > (1 << 17) or Lv < 2:
                    chk.inconclusive.append('witness for `%s` is too large to replay (bins=%d size=%d)' % (name, Lv, sv))
                    continue
                pre = min(2, sv)
                p = native.run_program('c14', REPLAY, ['reserve2', str(cap_for_bins(Lv)), str(pre), str(sv - pre)], release=True)
                m = re.search(r'reserve2 bins0=(\d+) pre=(\d+) add=(\d+) bins_after_reserve=(\d+) bins_after_inserts=(\d+)', p.stdout)
                if not m:
                    chk.inconclusive.append('replay of %s failed: %s' % (name, p.stderr[-500:]))
                    continue
                b0, pre_, add_, b1, b2 = map(int, m.groups())
                desc = 'obligation `%s` fails; solver witness: %d bins, reserve brings the total to %d; native: %d bins, %d entries, reserve(%d) -> %d bins, after the %d reserved inserts -> %d bins' % (
                    name, Lv, sv, b0, pre_, add_, b1, add_, b2)
                if b2 != b1:
                    chk.violation('reserve-then-grows', desc, REPLAY, 'reserve.rs')
                else:
                    chk.inconclusive.append('witness for `%s` did not reproduce natively (%s)' % (name, m.group(0)))
                continue
            if kind == 'treeify':
                p = native.run_program('c14', REPLAY, ['treeify'], release=True)
                rows = re.findall(r'treeify bins0=(\d+) bins_after=(\d+) has_tree=(\S+) tree_in_short_table=(\S+)', p.stdout)
                bad = [r for r in rows if (int(r[0]) >= 64 and int(r[1]) != int(r[0])) or r[3] == 'true' or (r[2] == 'true' and int(r[1]) < 64)]
                desc = 'obligation `%s` fails; native (12 keys with distinct hashes sharing one bin): %s' % (name, rows)
                if bad:
                    chk.violation('overfull-bin-threshold', desc, REPLAY, 'treeify.rs')
                else:
                    chk.inconclusive.append('witness for `%s` did not reproduce natively (%s)' % (name, rows))
                continue
            if kind in ('cap', 'cap0'):
                c = mdl.eval(info[1], model_completion=True).as_long()
                if c > (1 << 22):
                    # look for a small witness of the same obligation: replaying 2^40 entries is not possible
                    c = c % (1 << 20)
                p = native.run_program('c14', REPLAY, ['cap', str(c)], release=True)
                m = re.search(r'cap c=(\d+) bins=(\d+) size_ctl=(-?\d+) bins_after_c_inserts=(\d+)', p.stdout)
                if not m:
                    chk.inconclusive.append('replay of %s failed: %s' % (name, p.stderr[-500:]))
                    continue
                c_, bins, sc, after = map(int, m.groups())
                bad = (bins & (bins - 1)) != 0 or bins > MAXCAP or (c_ <= MAXCAP * 3 // 4 and (sc < c_ or after != bins)) or (c_ == 0 and bins != 0) or (bins != 0 and sc != bins - (bins >> 2))
                desc = 'obligation `%s` fails; solver witness capacity=%d; native: with_capacity(%d) -> %d bins, threshold %d (0.75*bins = %d), %d bins after inserting %d distinct keys' % (name, c, c_, bins, sc, bins - (bins >> 2), after, c_)
                if bad:
                    chk.violation('capacity:' + name.split('#')[0], desc, REPLAY, 'capacity.rs')
                else:
                    chk.inconclusive.append('witness for `%s` did not reproduce natively (%s)' % (name, m.group(0)))
            elif kind == 'count':
                n, cnt, sc0, tlen = info[1]
                nv = mdl.eval(n, model_completion=True).as_signed_long()
                # replay the canonical small instance: default 16-bin table, count0 = threshold-1, one removal
                p = native.run_program('c14', REPLAY, ['count', '10', '11'], release=True)
                lines = re.findall(r'count op=(\S+) bins_before=(\d+) bins_after=(\d+) count0=(\d+) grew_on_insert=(\S+)', p.stdout)
                grew = [l for l in lines if int(l[2]) != int(l[1])]
                desc = 'obligation `%s` fails; solver witness n=%d count0=%s size_ctl=%s; native (16 bins, 11 entries, one removal): %s' % (
                    name, nv, mdl.eval(cnt, model_completion=True), mdl.eval(sc0, model_completion=True), lines)
                if grew:
                    chk.violation('removal-grows-table', desc, REPLAY, 'removal_grows.rs')
                else:
                    chk.inconclusive.append('witness for `%s` did not reproduce natively (%s)' % (name, lines))
            else:
                chk.inconclusive.append('obligation `%s` has a counterexample (%s) for which no native replay exists' % (name, str(mdl)[:300]))
        except Exception as e:  # noqa
            chk.inconclusive.append('replay of `%s` raised %r' % (name, e))
