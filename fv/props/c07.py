"""C07 - iterators are weakly consistent, also across resizes.

Decided for one thread by the concrete-heap interpreter (mode B):
 (a) iteration interleaved with completed operations: the iterator is created, advanced j times, then the map is grown
     by one to three doublings (symbolic keys), entries are removed/replaced, a tree bin is untreeified or split by a
     resize under the standing iterator, then the iterator is drained.  Checked: termination, every key that was present
     and untouched for the whole iteration is yielded exactly once with its value, nothing is yielded that was not in the
     map at some moment of the iteration.
 (b) the traverser's index logic over HAND-BUILT forwarding states that no single thread can produce (bins transferred
     out of order by several helpers, nested resizes): three generations t1 (n bins) -> t2 (2n) -> t3 (4n) are built
     through the crate's own Table::new / get_moved / store_bin, which bins are already forwarded is a symbolic choice
     (every subset allowed by the transfer discipline), every key sits in the deepest table its chain reaches; the real
     NodeIter::next / push_state / recover_state run from MIR and must yield every key exactly once and terminate.
The data-race half of the property (next() racing with writers at the memory level) is outside (C15 / seize).
"""
from __future__ import annotations
import itertools
from typing import List
import z3
from .. import common as C, campaign as K
from ..mirpath import Program
from ..modeb import Interp, PathCtx, Explorer, Sc, Agg, Ptr, Holder, Tok, Opaque, UNIT, Unwind, Violation, Unsupported, NULL
from ..modeb_env import Env
from ._seq import run_property


def forwarding_states(prog: Program, n: int, two_per_bin: bool):
    """explore all forwarding masks for base length n; returns (paths, findings, steps)"""
    hfn = lambda it, k: Sc(k.val, 'u64')
    env = Env(prog, hfn)
    findings = []
    stats = {'paths': 0, 'steps': 0, 'masks': set()}

    def scenario(ctx: PathCtx):
        it = Interp(prog, ctx, env)
        coll = it.env.model(it, 'Collector::new', _T(), [], None)
        ch = Holder(coll)
        cref = Ptr(ch, ())
        guard = it.env.model(it, 'Collector::enter', _T(), [cref], None)
        gh = Holder(guard)
        gref = Ptr(gh, ())
        L = it.ledger

        def new_table(length):
            t = it.call_fn(prog.get('raw::Table::new'), [Sc(length, 'usize'), cref])
            return it.call_fn(prog.get('reclaim::Shared::boxed'), [t, cref])     # Shared<Table>

        def tref(shared):
            return Ptr(shared.fields[0].base, (('field', 1),))

        def node(key, nxt=None):
            v = it.call_fn(prog.get('reclaim::Shared::boxed'), [Tok('V', 1000 + key, None, L), cref])
            nd = it.call_fn(prog.get('node::Node::new'), [Sc(key, 'u64'), Tok('K', key, key, L), v])
            if nxt is not None:
                nd.fields[3] = it.call_fn(prog.get('<reclaim::Atomic as From>::from'), [nxt])
            return it.call_fn(prog.get('reclaim::Shared::boxed'), [Agg('node::BinEntry', 'Node', [nd]), cref])

        t1, t2, t3 = new_table(n), None, None
        # symbolic masks
        m1 = [ctx.branch(z3.Bool('t1_moved_%d' % i)) for i in range(n)]
        m2 = [False] * (2 * n)
        if any(m1):
            t2 = new_table(2 * n)
            for i in range(n):
                if m1[i]:
                    for j in (i, i + n):
                        m2[j] = ctx.branch(z3.Bool('t2_moved_%d' % j))
            if any(m2):
                t3 = new_table(4 * n)
        stats['masks'].add((tuple(m1), tuple(m2)))
        keys = list(range(4 * n)) + ([k + 4 * n for k in range(4 * n)] if two_per_bin else [])
        placed = []
        by_slot = {}
        for k in keys:
            i1 = k & (n - 1)
            if not m1[i1]:
                slot = (1, i1)
            else:
                i2 = k & (2 * n - 1)
                slot = (2, i2) if not m2[i2] else (3, k & (4 * n - 1))
            by_slot.setdefault(slot, []).append(k)
        tabs = {1: t1, 2: t2, 3: t3}
        for (g, idx), ks in by_slot.items():
            head = None
            for k in ks:
                head = node(k, head)
                placed.append(k)
            it.call_fn(prog.get('raw::Table::store_bin'), [tref(tabs[g]), Sc(idx, 'usize'), head])
        # forwarding markers (get_moved also links table.next_table)
        for i in range(n):
            if m1[i]:
                mv = it.call_fn(prog.get('raw::Table::get_moved'), [tref(t1), t2, gref])
                it.call_fn(prog.get('raw::Table::store_bin'), [tref(t1), Sc(i, 'usize'), mv])
        for j in range(2 * n):
            if m2[j]:
                mv = it.call_fn(prog.get('raw::Table::get_moved'), [tref(t2), t3, gref])
                it.call_fn(prog.get('raw::Table::store_bin'), [tref(t2), Sc(j, 'usize'), mv])
        ni = it.call_fn(prog.get('traverser::NodeIter::new'), [t1, gref])
        nh = Holder(ni)
        got = []
        for _ in range(16 * n + 8):
            r = it.call_fn(prog.get('<traverser::NodeIter as Iterator>::next'), [Ptr(nh, ())])
            if r.variant == 'None':
                break
            nd = it.load_ptr(r.fields[0])
            got.append(nd.fields[1].val)
        else:
            raise Violation('mismatch', 'NodeIter::next did not finish within %d calls (t1 moved %s, t2 moved %s)' % (16 * n + 8, m1, m2))
        if sorted(got) != sorted(placed):
            missing = sorted(set(placed) - set(got))
            dup = sorted(k for k in set(got) if got.count(k) > 1)
            raise Violation('mismatch', 'traverser over forwarded tables: yielded %s; missing %s, duplicated %s (n=%d, t1 moved %s, t2 moved %s)' % (got, missing, dup, n, m1, m2))
        stats['steps'] += it.steps
        return True

    ex = Explorer([], 5000)

    def on_path(ctx, res, exc):
        stats['paths'] += 1
        if isinstance(exc, Violation):
            findings.append(str(exc))
    ex.run(scenario, on_path)
    return stats, findings, ex.coverage_valid()


class _T:
    """dummy terminator for direct model calls"""
    span = None
    callee = ''
    place = None


REPLAY_FW = r'''
// appended as a #[cfg(test)] module to src/iter/traverser.rs of a scratch copy; builds the three generations by hand
'''


def extra(chk, results, scs):
    prog = Program(C.mir_functions())
    tot_paths = 0
    for n, two in ((2, False), (2, True), (4, False)) if chk.tier == 'quick' else ((2, False), (2, True), (4, False), (4, True)):
        stats, findings, covered = forwarding_states(prog, n, two)
        tot_paths += stats['paths']
        chk.obligation('(b) hand-built forwarding states, base length %d%s: every subset of forwarded bins over 3 generations (%d states): each key yielded exactly once, iteration terminates' % (
            n, ', two nodes per bin' if two else '', len(stats['masks'])), 'unsat' if not findings else 'sat')
        if not covered:
            chk.inconclusive.append('forwarding-state exploration for n=%d incomplete' % n)
        for f in findings[:2]:
            # the state cannot be produced through the public API by one thread; the replay is the in-crate unit test below
            ok = replay_forwarding(chk, f)
    chk.coverage['forwarding_states_paths'] = tot_paths
    chk.coverage['states'] = chk.coverage.get('states', 0) + tot_paths


def replay_forwarding(chk, finding: str):
    """replay: run the same hand-built state natively inside the crate (a #[cfg(test)] module appended to a scratch copy)"""
    import re, os, subprocess
    from .. import native
    m = re.search(r'n=(\d+), t1 moved (\[.*?\]), t2 moved (\[.*?\])', finding)
    if not m:
        chk.inconclusive.append('forwarding finding without state: ' + finding[:200])
        return
    n = int(m.group(1))
    m1 = eval(m.group(2))
    m2 = eval(m.group(3))
    two = 'duplicated' in finding and False
    snap = os.path.join(C.scratch(), 'repo-c07')
    C.snapshot_repo(snap)
    test = FW_TEST % {'n': n, 'm1': ', '.join('true' if x else 'false' for x in m1), 'm2': ', '.join('true' if x else 'false' for x in m2), 'n2': 2 * n, 'n4': 4 * n}
    with open(os.path.join(snap, 'src', 'iter', 'traverser.rs'), 'a') as fh:
        fh.write(test)
    p = subprocess.run(['cargo', 'test', '--offline', '--lib', 'verif_c07_forwarding', '--', '--nocapture'], cwd=snap,
                       env=C.cargo_env({'CARGO_TARGET_DIR': os.path.join(C.CACHE, 'target-c07')}), stdout=subprocess.PIPE, stderr=subprocess.PIPE, text=True, timeout=900)
    out = p.stdout + p.stderr
    if 'test result: ok' in out:
        chk.inconclusive.append('the interpreter reports `%s` but the in-crate native test of the same state passes' % finding[:200])
    elif 'C07-FW' in out or 'panicked' in out:
        mm = re.search(r'C07-FW[^\n]*', out)
        chk.violation('traverser-forwarding', finding + '\nnative in-crate test: ' + (mm.group(0) if mm else 'failed'), test, 'forwarding_test.rs')
    else:
        chk.inconclusive.append('native forwarding test did not build/run: ' + out[-600:])


FW_TEST = r'''
#[cfg(test)]
mod verif_c07 {
    use super::*;
    use crate::raw::Table;
    use crate::reclaim::Atomic;
    use parking_lot::Mutex;
    #[test]
    fn verif_c07_forwarding() {
        let n: usize = %(n)d;
        let m1: [bool; %(n)d] = [%(m1)s];
        let m2: [bool; %(n2)d] = [%(m2)s];
        let collector = seize::Collector::new();
        let guard = collector.enter();
        let mk = |k: usize| Shared::boxed(BinEntry::Node(Node { hash: k as u64, key: k, value: Atomic::from(Shared::boxed(k, &collector)), next: Atomic::null(), lock: Mutex::new(()) }), &collector);
        let t1 = Shared::boxed(Table::<usize, usize>::new(n, &collector), &collector);
        let t2 = Shared::boxed(Table::<usize, usize>::new(2 * n, &collector), &collector);
        let t3 = Shared::boxed(Table::<usize, usize>::new(4 * n, &collector), &collector);
        let mut placed = vec![];
        for k in 0..4 * n {
            let i1 = k & (n - 1);
            let (t, idx) = if !m1[i1] { (t1, i1) } else { let i2 = k & (2 * n - 1); if !m2[i2] { (t2, i2) } else { (t3, k & (4 * n - 1)) } };
            let tr = unsafe { t.deref() };
            let old = tr.bin(idx, &guard);
            let nd = mk(k);
            if !old.is_null() { unsafe { nd.deref() }.as_node().unwrap().next.store(old, Ordering::SeqCst); }
            tr.store_bin(idx, nd);
            placed.push(k);
        }
        for i in 0..n { if m1[i] { let tr = unsafe { t1.deref() }; tr.store_bin(i, tr.get_moved(t2, &guard)); } }
        for j in 0..2 * n { if m2[j] { let tr = unsafe { t2.deref() }; tr.store_bin(j, tr.get_moved(t3, &guard)); } }
        let mut got: Vec<usize> = NodeIter::new(t1, &guard).take(64 * n).map(|e| e.key).collect();
        got.sort();
        placed.sort();
        if got != placed { panic!("C07-FW yielded {:?}, stored {:?}", got, placed); }
    }
}
'''


def run(tier: str) -> int:
    return run_property('C07', tier, 'model_checking',
                        {'(a)': 'iterator created in 2-bin tables, advanced 0-2 times, then 1-3 doublings by inserts with symbolic keys (universe 3; arbitrary hash over universe 2), removal of an entry, drain; tree bin untreeified / split by a resize under a standing iterator',
                         '(b)': 'three table generations of base length 2 and 4, every subset of forwarded bins permitted by the transfer discipline, one or two nodes per bin',
                         'threads': 1},
                        ['next() racing with concurrent writers at the memory level is NOT covered; the forwarding states of (b) stand in for what concurrent helpers can leave behind between two next() calls'],
                        extra=extra)
