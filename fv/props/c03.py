"""C03 - references handed out under a guard never dangle; freed memory is never touched (mode B ledger + bulk construction)."""
from ._seq import run_property


def run(tier: str) -> int:
    return run_property('C03', tier, 'model_checking',
                        {'operations': 'as C02 (core alphabet in quick) with guard refreshes in the long scripts; every access to a reclaimed object, double retire, double free, retire of a freed object and drop of a value that was handed out under a still-live guard is a violation',
                         'bulk': 'FromIterator / Extend scenarios are in fv/props/c03_bulk (size hints 0..4, colliding keys)'},
                        ['reader/retirer interleavings and collector batch sizes are NOT covered (seize under real threads is the trusted base)'])
