"""C03 - references handed out under a guard never dangle; freed memory is never touched (mode B ledger + bulk construction
+ bounded interleavings of readers holding guards with retiring writers)."""
from ._seq import run_property
from ._conc import conc_extra
from ..concheck import ConcScenario

MEM = ('use-after-free', 'double-free', 'retire-freed', 'double-retire', 'retire-null', 'null-deref', 'dropped-under-guard', 'bad-downcast', 'panic', 'unreachable')


def conc(tier):
    th = tier == 'thorough'
    tree = list(range(10))
    S = [
        # a reader that pins while a resize is copying / retiring the bin it is about to read
        ConcScenario('resize/insert-vs-get-copied-node', hasher='identity', capacity=2, prefill=[0, 4], threads=[[('insert', 1)], [('get', 0)]], preemptions=2),
        ConcScenario('resize/insert-vs-get-reused-node', hasher='identity', capacity=2, prefill=[0, 4], threads=[[('insert', 1)], [('get', 4)]], preemptions=2),
        # readers against removal / replacement / clear of the entry they hold
        ConcScenario('list/remove-vs-get', hasher='identity', capacity=2, prefill=[0, 4], threads=[[('remove', 4)], [('get', 4)]], preemptions=2),
        ConcScenario('list/clear-vs-get', hasher='identity', capacity=2, prefill=[0, 4], threads=[[('clear',)], [('get', 4)]], preemptions=2),
        # clear losing the lock race on a tree bin against an untreeifying removal / another clear
        ConcScenario('tree/clear-vs-untreeify', hasher='const', capacity=40, prefill=tree, setup_removes=[0, 1, 2], threads=[[('clear',)], [('compute_none', 3)]], preemptions=2, yield_loads=th),
        ConcScenario('tree/clear-vs-clear', hasher='samebin', capacity=40, prefill=tree, threads=[[('clear',)], [('clear',)]], preemptions=2, yield_loads=th),
        # the removed entry itself: it stays reachable through the tree until the bin has been swapped for the list
        ConcScenario('tree/get-removed-vs-untreeify-by-remove', hasher='const', capacity=40, prefill=tree, setup_removes=[0, 1, 2], threads=[[('get', 3)], [('remove', 3)]], preemptions=2, yield_loads=True),
        ConcScenario('tree/get-removed-vs-untreeify-by-compute', hasher='const', capacity=40, prefill=tree, setup_removes=[0, 1, 2], threads=[[('get', 3)], [('compute_none', 3)]], preemptions=2, yield_loads=th),
        ConcScenario('tree/get-removed-vs-remove', hasher='const', capacity=40, prefill=tree, threads=[[('get', 5)], [('compute_none', 5)]], preemptions=2, yield_loads=th),
        ConcScenario('tree/get-vs-untreeify', hasher='const', capacity=40, prefill=tree, setup_removes=[0, 1, 2], threads=[[('get', 7)], [('remove', 3)]], preemptions=2, yield_loads=th),
    ]
    return S


def run(tier: str) -> int:
    return run_property('C03', tier, 'model_checking',
                        {'operations': 'as C02 (core alphabet in quick) with guard refreshes in the long scripts; every access to a reclaimed object, double retire, double free, retire of a freed object and drop of a value that was handed out under a still-live guard is a violation',
                         'bulk': 'FromIterator with every lower size hint 0..n-1 for 3-4 items (thorough 2-5), spread and colliding keys'},
                        ['collector batch sizes are not modelled: an object is reclaimed as soon as every guard that was active at its retirement is gone (the earliest moment any batch size allows)', 'seize itself is trusted'],
                        extra=conc_extra('C03', conc, MEM, 'no access to reclaimed memory, no double retire/free'))
