"""C02 - sequential behaviour equals a reference map for every op sequence and hasher (mode B, see fv/seqcheck.py)."""
from ._seq import run_property


def run(tier: str) -> int:
    return run_property('C02', tier, 'model_checking',
                        {'operations': 'quick: insert k0; insert k1; then every pair over 13 operation kinds with symbolic keys (universe 3), identity and constant hashers, 2-bin initial table (every second insert resizes), both facades; arbitrary hash function over a universe of 2; scripts of 10 ops across two resizes with guard refresh; 64-bin table with a 10-node tree bin + 2-5 symbolic ops. thorough: + more hashers/capacities, triples over 8 kinds with universe 4, per-step quiescence checks',
                         'keys': 'symbolic 8-bit, constrained to the universe; key instances carry a tag that Eq/Ord/Hash ignore (which instance is kept is checked)',
                         'paths': 'all feasible paths (depth-first by re-execution); the disjunction of the explored path conditions is checked to be valid'},
                        ['every return value is compared with a reference association list over the same symbolic key terms; a comparison is a solver query under the path condition'])
