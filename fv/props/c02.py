"""C02 - sequential behaviour equals a reference map for every op sequence and hasher (mode B, see fv/seqcheck.py)."""
from ._seq import run_property


def translator_validation(chk, results, scs):
    """random concrete scripts through the interpreter AND the real crate: results against the reference in both, and the
    final heap structure (bins, list order, complete tree shape and colours) must be identical (tools/validate_translator.py)"""
    import io, os, sys, contextlib, importlib.util
    from .. import common as C
    spec = importlib.util.spec_from_file_location('validate_translator', os.path.join(C.VERIF, 'tools', 'validate_translator.py'))
    vt = importlib.util.module_from_spec(spec)
    spec.loader.exec_module(vt)
    n = 6 if chk.tier == 'quick' else 60
    buf = io.StringIO()
    old = sys.argv
    sys.argv = ['validate_translator.py', str(n), str(C.SEED)]
    try:
        with contextlib.redirect_stdout(buf):
            rc = vt.main()
    finally:
        sys.argv = old
    last = buf.getvalue().strip().split('\n')[-1]
    chk.coverage['translator_validation'] = last
    chk.obligation('translator validation: %d random concrete scripts give the same results and the same final heap structure in the interpreter and in the real crate' % n, 'holds' if rc == 0 else 'violated', nontrivial=True)
    if rc != 0:
        chk.inconclusive.append('translator validation failed (the interpreter and the real crate disagree): ' + buf.getvalue()[-600:])


def run(tier: str) -> int:
    return run_property('C02', tier, 'model_checking',
                        {'operations': 'quick: insert k0; insert k1; then every pair over 13 operation kinds with symbolic keys (universe 3), identity and constant hashers, 2-bin initial table (every second insert resizes), both facades; arbitrary hash function over a universe of 2; scripts of 10 ops across two resizes with guard refresh; 64-bin table with a 10-node tree bin + 2-5 symbolic ops. thorough: + more hashers/capacities, triples over 8 kinds with universe 4, per-step quiescence checks',
                         'keys': 'symbolic 8-bit, constrained to the universe; key instances carry a tag that Eq/Ord/Hash ignore (which instance is kept is checked)',
                         'paths': 'all feasible paths (depth-first by re-execution); the disjunction of the explored path conditions is checked to be valid'},
                        ['every return value is compared with a reference association list over the same symbolic key terms; a comparison is a solver query under the path condition'],
                        extra=translator_validation)
