"""C17 - only thread-safe keys and values can enter a map (compile time).  See fv/sigsmt.py."""
from __future__ import annotations
import re
from typing import Dict, List, Tuple
from .. import common as C, sigsmt as G

PRELUDE = r'''#![allow(unused, dead_code, clippy::all)]
use flurry::{HashMap, HashSet};
use std::cell::Cell;
use std::marker::PhantomData;
use std::rc::Rc;
use rayon::iter::{FromParallelIterator, IntoParallelIterator, ParallelExtend, ParallelIterator};
macro_rules! probe_type { ($n:ident, $ph:ty) => {
    #[derive(Clone, Copy, PartialEq, Eq, PartialOrd, Ord, Hash, Default, Debug)]
    pub struct $n(u8, PhantomData<$ph>);
    impl<'de> serde::Deserialize<'de> for $n {
        fn deserialize<D: serde::Deserializer<'de>>(d: D) -> Result<Self, D::Error> { <u8 as serde::Deserialize>::deserialize(d).map(|x| $n(x, PhantomData)) }
    }
} }
probe_type!(Good, u8);                                       // Send + Sync
probe_type!(NoSync, Cell<u8>);                               // Send + !Sync
probe_type!(NoSend, std::sync::MutexGuard<'static, u8>);     // Sync + !Send
probe_type!(NoBoth, Rc<u8>);                                 // !Send + !Sync
fn k<T: Default>() -> T { T::default() }
'''

# (api key, shape of the trait argument) -> probe body using the type aliases KT / VT
MAP_T = {
    ('HashMap::insert', ''): 'let m: HashMap<KT, VT> = HashMap::new(); let g = m.guard(); m.insert(k(), k(), &g);',
    ('HashMap::try_insert', ''): 'let m: HashMap<KT, VT> = HashMap::new(); let g = m.guard(); let _ = m.try_insert(k(), k(), &g);',
    ('HashMap::compute_if_present', ''): 'let m: HashMap<KT, VT> = HashMap::new(); let g = m.guard(); let key: KT = k(); m.compute_if_present(&key, |_, _| Some(k()), &g);',
    ('HashMapRef::insert', ''): 'let m: HashMap<KT, VT> = HashMap::new(); m.pin().insert(k(), k());',
    ('HashMapRef::try_insert', ''): 'let m: HashMap<KT, VT> = HashMap::new(); let _ = m.pin().try_insert(k(), k());',
    ('HashMapRef::compute_if_present', ''): 'let m: HashMap<KT, VT> = HashMap::new(); let key: KT = k(); m.pin().compute_if_present(&key, |_, _| Some(k()));',
    ('<&HashMap as Extend>::extend', '(K, V)'): 'let m: HashMap<KT, VT> = HashMap::new(); (&m).extend(vec![(k::<KT>(), k::<VT>())]);',
    ('<&HashMap as Extend>::extend', "(&'a K, &'a V)"): 'let m: HashMap<KT, VT> = HashMap::new(); let (a, b): (KT, VT) = (k(), k()); (&m).extend(vec![(&a, &b)]);',
    ('<HashMap as FromIterator>::from_iter', '(K, V)'): 'let m: HashMap<KT, VT> = vec![(k::<KT>(), k::<VT>())].into_iter().collect();',
    ('<HashMap as FromIterator>::from_iter', "(&'a K, &'a V)"): 'let (a, b): (KT, VT) = (k(), k()); let m: HashMap<KT, VT> = vec![(&a, &b)].into_iter().collect();',
    ('<HashMap as FromIterator>::from_iter', "&'a (K, V)"): 'let a: (KT, VT) = (k(), k()); let m: HashMap<KT, VT> = vec![&a].into_iter().collect();',
    ('<HashMap as Clone>::clone', ''): 'let m: HashMap<KT, VT> = HashMap::new(); let _ = m.clone();',
    ('<HashMap as Deserialize>::deserialize', ''): 'let m: HashMap<KT, VT> = serde_json::from_str("{}").unwrap();',
    ('<HashMap as FromParallelIterator>::from_par_iter', '(K, V)'): 'let m: HashMap<KT, VT> = HashMap::from_par_iter(vec![(k::<KT>(), k::<VT>())]);',
    ('<HashMap as ParallelExtend>::par_extend', '(K, V)'): 'let mut m: HashMap<KT, VT> = HashMap::new(); m.par_extend(vec![(k::<KT>(), k::<VT>())]);',
    ('<&HashMap as ParallelExtend>::par_extend', '(K, V)'): 'let m: HashMap<KT, VT> = HashMap::new(); (&m).par_extend(vec![(k::<KT>(), k::<VT>())]);',
    ('<HashMapRef as ParallelExtend>::par_extend', '(K, V)'): 'let m: HashMap<KT, VT> = HashMap::new(); m.pin().par_extend(vec![(k::<KT>(), k::<VT>())]);',
}
SET_T = {
    ('HashSet::insert', ''): 'let s: HashSet<KT> = HashSet::new(); let g = s.guard(); s.insert(k(), &g);',
    ('HashSetRef::insert', ''): 'let s: HashSet<KT> = HashSet::new(); s.pin().insert(k());',
    ('<&HashSet as Extend>::extend', 'T'): 'let s: HashSet<KT> = HashSet::new(); (&s).extend(vec![k::<KT>()]);',
    ('<&HashSet as Extend>::extend', "&'a T"): 'let s: HashSet<KT> = HashSet::new(); let a: KT = k(); (&s).extend(vec![&a]);',
    ('<HashSet as FromIterator>::from_iter', 'T'): 'let s: HashSet<KT> = vec![k::<KT>()].into_iter().collect();',
    ('<HashSet as FromIterator>::from_iter', "&'a T"): 'let a: KT = k(); let s: HashSet<KT> = vec![&a].into_iter().collect();',
    ('<HashSet as Clone>::clone', ''): 'let s: HashSet<KT> = HashSet::new(); let _ = s.clone();',
    ('<HashSet as Deserialize>::deserialize', ''): 'let s: HashSet<KT> = serde_json::from_str("[]").unwrap();',
    ('<HashSet as FromParallelIterator>::from_par_iter', 'K'): 'let s: HashSet<KT> = HashSet::from_par_iter(vec![k::<KT>()]);',
    ('<HashSet as ParallelExtend>::par_extend', 'K'): 'let mut s: HashSet<KT> = HashSet::new(); s.par_extend(vec![k::<KT>()]);',
    ('<&HashSet as ParallelExtend>::par_extend', 'K'): 'let s: HashSet<KT> = HashSet::new(); (&s).par_extend(vec![k::<KT>()]);',
    ('<HashSetRef as ParallelExtend>::par_extend', 'K'): 'let s: HashSet<KT> = HashSet::new(); s.pin().par_extend(vec![k::<KT>()]);',
}
READ_ONLY = r'''
let m: HashMap<NoBoth, NoBoth> = HashMap::new(); let g = m.guard(); let key: NoBoth = k();
let _ = m.get(&key, &g); let _ = m.get_key_value(&key, &g); let _ = m.contains_key(&key, &g);
let _ = m.iter(&g).count(); let _ = m.keys(&g).count(); let _ = m.values(&g).count(); let _ = m.len(); let _ = m.is_empty();
let r = m.pin(); let _ = r.get(&key); let _ = r.contains_key(&key); let _ = r.iter().count(); let _ = r.len();
let s: HashSet<NoBoth> = HashSet::new(); let g = s.guard(); let _ = s.contains(&key, &g); let _ = s.get(&key, &g); let _ = s.iter(&g).count(); let _ = s.len();
let _ = s.pin().contains(&key); let _ = s.pin().get(&key); let _ = s.pin().iter().count(); let _ = s.pin().len();
let s2: HashSet<NoBoth> = HashSet::new(); let _ = s.pin().is_disjoint(&s2.pin()); let _ = s.pin().is_subset(&s2.pin()); let _ = s.pin().is_superset(&s2.pin());
let g2 = s2.guard(); let _ = s.is_disjoint(&s2, &g, &g2); let _ = s.is_subset(&s2, &g, &g2); let _ = s.is_superset(&s2, &g, &g2);
let r = m.pin(); let _ = r.get_key_value(&key); let _ = r.keys().count(); let _ = r.values().count(); let _ = r.is_empty();
'''


def shape(api: G.Api) -> str:
    if api.trait is None or not api.trait_args:
        return ''
    a = api.trait_args.get('angle_bracketed', {}).get('args', [])
    tys = [G.arg_str(x) for x in a if 'type' in x]
    return tys[0] if tys else ''


def run(tier: str) -> int:
    chk = C.Check('C17', tier, 'model_checking')
    j = C.rustdoc_json()
    apis = G.load_api(j)
    chk.bounds = {'entry_points': 'every public method / trait impl of HashMap, HashSet, HashMapRef, HashSetRef in rustdoc JSON (features serde,rayon)',
                  'probe_types': 'Send+!Sync, Sync+!Send, !Send+!Sync as key and, separately, as value'}
    chk.assumptions = ['rustdoc JSON lists the where-predicates exactly as rustc enforces them', 'rustc\'s trait solver is the replay oracle',
                       'an entry point is "inserting" if it takes the key/value type by value, takes a closure producing one, or implements Extend/FromIterator/Clone/Deserialize/FromParallelIterator/ParallelExtend']
    owners4 = [a for a in apis if a.owner in G.OWNERS]
    inserting = [a for a in owners4 if G.is_inserting(a) and a.vis == 'public']
    reading = [a for a in owners4 if a.vis == 'public' and a.trait is None and not G.is_inserting(a)
               and a.name in ('get', 'get_key_value', 'contains_key', 'contains', 'iter', 'keys', 'values', 'len', 'is_empty')]
    missing: Dict[Tuple[str, str], List[str]] = {}
    for a in inserting:
        ok, bounds, miss = G.c17_query(a)
        chk.obligation('%s [%s]: bounds entail K,V: Send + Sync' % (a.key, shape(a)), 'unsat' if ok else 'sat')
        chk.sample({'entry_point': a.key, 'trait_arg': shape(a), 'bounds': {k: v for k, v in bounds.items() if k in G.owner_params(a)}})
        if not ok:
            missing[(a.key, shape(a))] = miss
    for a in reading:
        ok, bounds, miss = G.c17_query(a)
        chk.obligation('%s: lookup stays available without Send/Sync (bounds do not entail them)' % a.key, 'sat-expected' if not ok else 'violated', nontrivial=False)
        if ok:
            missing[(a.key + ' (read-only now requires thread safety)', '')] = ['read-only entry point demands Send+Sync']
    if len(inserting) < 25:
        chk.inconclusive.append('only %d inserting entry points discovered - front end out of date' % len(inserting))
    chk.coverage['entry_points_inserting'] = [a.key + (' [%s]' % shape(a) if shape(a) else '') for a in inserting]
    chk.coverage['entry_points_reading'] = [a.key for a in reading]
    # ---- rustc oracle: always run (translator validation in both directions)
    templates = {}
    templates.update(MAP_T)
    templates.update(SET_T)
    known = {(a.key, shape(a)) for a in inserting}
    untemplated = sorted(k for k in known if k not in templates)
    control = G.ProbeSet(PRELUDE)
    probes = G.ProbeSet(PRELUDE)
    variants = [('K', 'NoSync'), ('K', 'NoSend'), ('K', 'NoBoth'), ('V', 'NoSync'), ('V', 'NoSend'), ('V', 'NoBoth')]
    for key, body in templates.items():
        if key not in known:
            continue
        is_map = key in MAP_T
        control.add('%s|%s|control' % key, 'type KT = Good; type VT = Good;\n' + body)
        for which, bad in variants:
            if which == 'V' and not is_map:
                continue
            kt, vt = (bad, 'Good') if which == 'K' else ('Good', bad)
            probes.add('%s|%s|%s=%s' % (key[0], key[1], which, bad), 'type KT = %s; type VT = %s;\n' % (kt, vt) + body)
    control.add('read-only', READ_ONLY)
    rc, diags, err = G.run_probe_crate('c17_control', control.text())
    if rc != 0:
        att = control.attribute(diags)
        bad = {k: v for k, v in att.items() if v}
        ro = bad.pop('read-only', None)
        if ro:
            chk.violation('read-only-needs-thread-safety', 'lookup / iteration on a map of !Send+!Sync keys and values no longer compiles: ' + '; '.join(d['message'][:160] for d in ro[:3]),
                          control.text(), 'c17_control.rs')
        if bad:
            chk.inconclusive.append('control probes (thread-safe types) do not compile: %s %s' % ({k: [d['message'][:100] for d in v[:2]] for k, v in list(bad.items())[:4]}, err[-300:] if not diags else ''))
    rc2, diags2, err2 = G.run_probe_crate('c17_probes', probes.text())
    att = probes.attribute(diags2)
    n_probes = len(probes.ranges)
    accepted = [pid for pid in probes.ranges if not [d for d in att[pid] if d['code'] in ('E0277', 'E0599', 'E0308', 'E0282', 'E0283')]]
    chk.coverage['programs_compiled'] = n_probes + len(control.ranges)
    chk.coverage['traces_validated_against_impl'] = n_probes
    chk.coverage['states'] = len(inserting) + len(reading)
    chk.coverage['transitions'] = n_probes
    if att.get('<other>') and not chk.inconclusive:
        chk.inconclusive.append('probe crate has errors outside the probes: ' + '; '.join(d['message'][:120] for d in att['<other>'][:3]))
    if not chk.inconclusive:
        for pid in accepted:
            key0, shp, var = pid.split('|')
            chk.violation('accepts-non-thread-safe:%s[%s]' % (key0, shp),
                          '%s [%s] compiles with %s (%s of bounds missing per solver: %s)' % (key0, shp, var, 'solver agrees, ' if (key0, shp) in missing else 'solver did NOT predict this, ', missing.get((key0, shp))),
                          probes.text(), 'c17_probe_%s.rs' % re.sub(r'[^A-Za-z0-9]+', '_', key0 + shp + var))
        # solver says bounds are missing but no probe was accepted?
        for (key0, shp), miss in missing.items():
            if not any(p.startswith(key0 + '|' + shp + '|') for p in accepted) and (key0, shp) in templates:
                chk.inconclusive.append('%s [%s]: bounds in rustdoc JSON do not entail %s, yet rustc rejected every probe' % (key0, shp, miss))
            elif (key0, shp) not in templates and 'read-only' not in key0:
                chk.inconclusive.append('%s [%s]: bounds do not entail %s and there is no probe template for this entry point' % (key0, shp, miss))
    if untemplated:
        chk.coverage['entry_points_without_probe_template'] = ['%s [%s]' % u for u in untemplated]
    return chk.finish()
