"""Systematic pairwise interleaving matrix: (bin shape) x (operation, key) x (operation, key).

The hand-written scenario lists of C01/C03/C04/C08/C11 grew out of particular defects; this generator removes the hand from
the choice: for five bin shapes it pairs every interesting (operation, key) with every other one, two logical threads, all
schedules within the preemption bound.  Oracles are the generic ones of the interleaving engine (linearizability incl.
retain as conditional removals, reclamation ledger, references held until the reader's guard is released, quiescent
structure, deadlock / livelock bound).  `select(prop, tier, seed)` returns the part of the matrix a property runs and the
finding kinds it owns there."""
from __future__ import annotations
import itertools, random
from typing import List, Optional, Set, Tuple
from ..concheck import ConcScenario

# shape -> (hasher, capacity, prefill, setup_removes, [(op, key) ...], preemptions, yield_loads)
SHAPES = {
    # two nodes in bin 0 of a 4-bin table (keys 0 head, 4 tail), 8 = new key of the same bin, 1 = other bin
    'list': ('identity', 2, [0, 4], [], [('insert', 0), ('insert', 4), ('insert', 8), ('remove', 0), ('remove', 4), ('compute_inc', 0), ('compute_inc', 4), ('compute_none', 4), ('get', 0), ('get', 4), ('clear',), ('retain_none',)], 2, True),
    # a 2-bin table at its threshold: the next insert resizes it
    'resize': ('identity', 1, [0], [], [('insert', 1), ('insert', 0), ('remove', 0), ('compute_inc', 0), ('compute_none', 0), ('get', 0), ('clear',), ('retain_none',)], 2, True),
    # a 10-node tree bin
    'tree': ('const', 40, list(range(10)), [], [('insert', 12), ('insert', 5), ('remove', 5), ('remove', 3), ('compute_inc', 5), ('compute_none', 5), ('get', 5), ('get', 3), ('clear',)], 2, False),
    # a tree bin one removal away from being converted back into a list
    'untreeify': ('const', 40, list(range(10)), [0, 1, 2], [('remove', 3), ('compute_none', 3), ('insert', 7), ('compute_inc', 7), ('remove', 7), ('get', 3), ('get', 7), ('insert', 20)], 2, False),
    # a list bin one insert away from being converted into a tree
    'treeify': ('const', 40, list(range(8)), [], [('insert', 8), ('insert', 0), ('insert', 5), ('remove', 0), ('remove', 5), ('compute_inc', 5), ('compute_none', 5), ('get', 5)], 2, False),
}
READS = {'get'}


def all_scenarios() -> List[ConcScenario]:
    out = []
    for shape, (hasher, cap, prefill, removes, ops, pre, loads) in SHAPES.items():
        for a, b in itertools.combinations(ops, 2):
            if a[0] in READS and b[0] in READS:
                continue
            if shape in ('tree', 'untreeify', 'treeify') and not (set([a, b]) & STRUCTURAL[shape]):
                continue        # two operations that leave the bin's structure alone are covered by the list shape
            name = 'matrix/%s/%s-vs-%s' % (shape, '_'.join(str(x) for x in a), '_'.join(str(x) for x in b))
            out.append(ConcScenario(name, hasher=hasher, capacity=cap, prefill=list(prefill), setup_removes=list(removes), threads=[[a], [b]], preemptions=pre, yield_loads=loads))
    return out


# at least one side must restructure the bin in the expensive shapes
STRUCTURAL = {
    'tree': {('insert', 12), ('remove', 5), ('remove', 3), ('compute_none', 5), ('clear',)},
    'untreeify': {('remove', 3), ('compute_none', 3), ('remove', 7), ('insert', 20)},
    'treeify': {('insert', 8), ('remove', 0)},
}

OWNED = {
    'C01': None,                                                                      # everything
    'C03': {'use-after-free', 'double-free', 'retire-freed', 'double-retire', 'dropped-under-guard', 'null-deref'},
    'C04': {'leak', 'double-drop', 'dropped-under-guard', 'double-free'},
    'C08': {'not-linearizable', 'mismatch'},
    'C11': {'deadlock', 'livelock', 'self-deadlock'},
}


def select(prop: str, tier: str, seed: int) -> Tuple[List[ConcScenario], Optional[Set[str]]]:
    scs = all_scenarios()

    def has(sc, kinds):
        return any(t[0][0] in kinds for t in sc.threads)
    if prop == 'C03':
        scs = [s for s in scs if has(s, {'get'})]
    elif prop == 'C04':
        scs = [s for s in scs if has(s, {'remove', 'compute_none', 'clear', 'retain_none'}) and has(s, {'get', 'insert', 'compute_inc'})]
    elif prop == 'C08':
        scs = [s for s in scs if has(s, {'compute_inc', 'compute_none'})]
    elif prop == 'C11':
        scs = [s for s in scs if not has(s, {'get'})]
    if tier != 'thorough':
        rng = random.Random(7919 * (seed + 1) + sum(map(ord, prop)))
        scs = rng.sample(scs, min(len(scs), 8 if prop == 'C01' else 4))
    return scs, OWNED.get(prop)
