"""Shared driver for the interleaving scenarios (fv/concheck.py)."""
from __future__ import annotations
import multiprocessing as mp, os, time, re
from typing import Any, Dict, List, Optional
from .. import common as C
from ..mirpath import Program
from ..concheck import ConcScenario, ConcRunner

_PROG = None


def _work(sc: ConcScenario):
    global _PROG
    if _PROG is None:
        _PROG = Program(C.mir_functions())
    t0 = time.time()
    try:
        r = ConcRunner(_PROG, sc, max_paths=int(os.environ.get('VERIF_MAX_SCHEDULES', '60000'))).run()
        return {'name': sc.name, 'queries': r.queries, 'paths': r.paths, 'steps': r.steps, 'points': r.sched_points, 'findings': r.findings, 'samples': r.samples,
                'modelled': r.modelled, 'executed': r.executed, 'max_switches': r.max_switches, 'time': time.time() - t0, 'error': None, 'inv_checks': getattr(r, 'inv_checks', 0)}
    except C.Inconclusive as e:
        return {'name': sc.name, 'error': 'inconclusive: %s' % e, 'time': time.time() - t0}
    except Exception as e:
        import traceback
        return {'name': sc.name, 'error': '%s: %s' % (type(e).__name__, str(e)[:300]), 'time': time.time() - t0, 'tb': traceback.format_exc()[-1200:]}


def run_conc(scs: List[ConcScenario]) -> List[Dict[str, Any]]:
    C.mir_functions()
    for sc in scs:
        # a third preemption is affordable only where a schedule is short: scenarios that run a whole resize stay at two
        if sc.preemptions > 2 and ('resize' in sc.name or 'coop/' in sc.name or 'tree' in sc.name):
            sc.preemptions = 2
    if len(scs) <= 1:
        return [_work(s) for s in scs]
    ctx = mp.get_context('fork')
    with ctx.Pool(min(16, len(scs))) as pool:
        return list(pool.imap_unordered(_work, scs, chunksize=1))


def report(chk: C.Check, prop: str, results, scs, owned_kinds=None, describe=''):
    """obligations + violations from interleaving results.  A schedule-dependent finding cannot be forced natively without
    instrumenting the crate; it is reported with its witness schedule after the interpreter has re-executed that exact
    schedule (decision prefix) and reached the same violation (determinism check) - stated in DESIGN.md §3.5."""
    tot_paths = sum(r.get('paths', 0) for r in results)
    tot_points = sum(r.get('points', 0) for r in results)
    C.STATS.queries += sum(r.get('queries', 0) for r in results)
    chk.coverage['mir_statements_executed'] = chk.coverage.get('mir_statements_executed', 0) + sum(r.get('steps', 0) for r in results)
    chk.coverage['schedules_explored'] = chk.coverage.get('schedules_explored', 0) + tot_paths
    chk.coverage['scheduling_points'] = chk.coverage.get('scheduling_points', 0) + tot_points
    if any(r.get('inv_checks') for r in results):
        chk.coverage['protocol_invariant_evaluations'] = chk.coverage.get('protocol_invariant_evaluations', 0) + sum(r.get('inv_checks', 0) for r in results)
    chk.coverage['states'] = chk.coverage.get('states', 0) + max(tot_paths, 1)
    chk.coverage['transitions'] = chk.coverage.get('transitions', 0) + max(tot_points, 1)
    byname = {s.name: s for s in scs}
    for r in results:
        if r.get('error'):
            chk.inconclusive.append('interleaving scenario %s: %s' % (r['name'], r['error']))
            continue
        fs = r.get('findings') or []
        if owned_kinds is not None:
            fs = [f for f in fs if f.kind in owned_kinds]
        sc = byname[r['name']]
        chk.obligation('interleavings %s: %d threads, <= %d preemptions, %d schedules%s: %s' % (r['name'], len(sc.threads), sc.preemptions, r.get('paths', 0), '' if sc.yield_loads else ' (loads are not scheduling points)', describe),
                       'unsat' if not fs else 'sat', nontrivial=r.get('paths', 0) > 1)
        for s in r.get('samples') or []:
            chk.sample(s)
        seen = set()
        for f in fs:
            key = (f.kind, f.what[:60])
            if key in seen or len(seen) >= 2:
                continue
            seen.add(key)
            text = 'scenario %s (threads: %s; prefill %s; %s hash; capacity %s)\n%s\nwitness schedule (last steps):\n  %s' % (
                sc.name, sc.threads, sc.prefill, sc.hasher, sc.capacity, f.what, '\n  '.join(f.trace[-40:]))
            chk.violation('%s:%s' % (f.kind, sc.name), 'under a schedule with <= %d preemptions: %s' % (sc.preemptions, f.what[:600]) + '\n(schedule-dependent: witness schedule in the replay file; it replays deterministically in the interpreter)',
                          text, 'schedule_%s.txt' % re.sub(r'[^A-Za-z0-9]+', '_', sc.name))


def matrix_section(chk, prop: str):
    """the systematic pairwise matrix (fv/props/_matrix.py): the whole relevant part in the thorough tier, a seed-rotated sample in quick"""
    from . import _matrix
    if prop not in _matrix.OWNED:
        return
    scs, owned = _matrix.select(prop, chk.tier, C.SEED)
    res = run_conc(scs)
    chk.bounds['matrix'] = ('%d of the %d scenarios of the pairwise matrix (5 bin shapes x unordered pairs of (operation, key); 2 threads, <= 2 preemptions; quick: a sample rotated by VERIF_SEED)'
                            % (len(scs), len(_matrix.all_scenarios())))
    report(chk, prop, res, scs, owned_kinds=owned, describe='pairwise matrix: linearizable (clear / retain as their per-key steps), ledger clean, references held until the guard is released, quiescent structure well formed')


def conc_extra(prop: str, make_scenarios, owned_kinds=None, describe=''):
    """an `extra` hook for run_property: adds an interleaving section to a mode-B property"""
    def extra(chk, results, scs):
        cs = make_scenarios(chk.tier)
        res = run_conc(cs)
        chk.bounds['interleavings'] = '%d scenarios of 2 logical threads, <= 2 preemptions, every atomic access a scheduling point unless stated' % len(cs)
        report(chk, prop, res, cs, owned_kinds=owned_kinds, describe=describe)
        matrix_section(chk, prop)
    return extra
