"""C15 - updates happen-before the reads that observe them (axiomatic queries over accesses extracted from the MIR).

Every store-like access to a shared pointer cell (reclaim::Atomic::{store,swap,compare_exchange}, Table::{store_bin,cas_bin},
and the std atomics) is read from the MIR of the current tree together with the memory ordering it passes.  For each such
publication site a small event graph in the RC11 fragment is instantiated and z3 is asked for a consistent execution in
which a reader obtains the stored pointer yet its access to the pointee is not ordered after the writer's
initialisation:

    W_init (plain)  --po-->  [W_link* (ordering as written, receiver private)]  --po-->  W_pub (ordering as written)
    R_obs (guarded loads are SeqCst in seize, read from seize's source model; unprotected: as written)  --po--> R_payload (plain)
    rf(W_pub, R_obs);  sw(W_pub, R_obs) iff W_pub is a release-or-stronger store and R_obs an acquire-or-stronger load;
    hb = (po U sw)+ ;  race  iff  not hb(W_init, R_payload)

Three ways a store may legitimately be weaker than Release are recognised, each established by its own query on the MIR:
  (P) the receiver object is still private to the storing function (allocated there; or a parameter of TreeBin::new whose
      every caller passes a private list) and the function publishes it later with a release-or-stronger store;
  (L) the store executes inside the tree bin's root-lock region (lock_root .. unlock_root; unlock_root is a Release store,
      readers enter the tree through a SeqCst CAS on the same word), decided as a path obligation (z3 reachability);
  (O) the cell is owned (teardown with &mut self) or is not a pointer cell.
Bounds: <= 6 events, 2 threads per graph; 3-thread chains (writer -> copier -> reader) are covered because every hop is a
publication site of its own.  Weak-memory witnesses cannot be exhibited on x86: the witness is the event graph with the
file:line of the store, re-validated by cvc5 (stated exception, DESIGN.md §3.5); a Miri data-race run is attempted as
supporting evidence only.
"""
from __future__ import annotations
import re
from typing import Dict, List, Optional, Set, Tuple
import z3
from .. import common as C, mir as M, mirpath as P

REL = {'Release', 'AcqRel', 'SeqCst'}
ACQ = {'Acquire', 'AcqRel', 'SeqCst'}
FRESH_CALLS = re.compile(r'(Shared::boxed$|TreeNode::new$|Node::new$|Node::with_next$|Atomic::null$|reclaim::Atomic as From>::from$|Table::new$|Table::from$|TreeBin::new$|Collector::link_boxed$)')
PASS_THROUGH = re.compile(r'(Shared::deref$|Linked as Deref>::deref$|TreeNode::get_tree_node$|BinEntry::as_node$|BinEntry::as_tree_node$|BinEntry::as_tree_bin$|Option::unwrap$|Option::expect$|Shared::as_ref$|Shared as Clone>::clone$|Shared::as_ptr$)')
SHARED_SOURCES = re.compile(r'(reclaim::Atomic::load$|reclaim::Atomic::swap$|raw::Table::bin$|Table::next_table$|Table::get_moved$|Guard::protect$)')


def ordering_of(fn: M.Function, op: M.Operand) -> str:
    if op.place is None:
        m = re.search(r'Ordering::(\w+)$', op.const or '')
        return m.group(1) if m else '?'
    loc = op.place.local
    for b in fn.blocks.values():
        for s in b.stmts:
            if s.kind == 'assign' and not s.place.proj and s.place.local == loc:
                if s.rvalue.kind == 'aggregate':
                    m = re.search(r'Ordering::(\w+)$', M.strip_generics(s.rvalue.ty or ''))
                    if m:
                        return m.group(1)
                if s.rvalue.kind == 'use' and s.rvalue.ops[0].kind == 'const':
                    m = re.search(r'Ordering::(\w+)$', s.rvalue.ops[0].const)
                    if m:
                        return m.group(1)
    return 'param'


def def_sites(fn: M.Function) -> Dict[int, List[Tuple[str, object]]]:
    out: Dict[int, List[Tuple[str, object]]] = {}
    for b in fn.blocks.values():
        for s in b.stmts:
            if s.kind == 'assign' and not s.place.proj:
                out.setdefault(s.place.local, []).append(('stmt', s))
        t = b.term
        if t.kind == 'call' and t.place is not None and not t.place.proj:
            out.setdefault(t.place.local, []).append(('call', t))
    return out


def private_locals(fn: M.Function, private_params: Set[int]) -> Set[int]:
    """locals that can only denote objects allocated by this function (or private parameters); greatest fixed point"""
    defs = def_sites(fn)
    params = {p for p, _ in fn.params}
    cand = set(fn.locals) | set(defs)
    priv = {l for l in cand if (l not in params or l in private_params)}
    changed = True
    while changed:
        changed = False
        for l in list(priv):
            if l in params:
                continue
            ok = True
            for kind, d in defs.get(l, []):
                if kind == 'stmt':
                    rv = d.rvalue
                    srcs = []
                    if rv.kind in ('use', 'cast') and rv.ops and rv.ops[0].place is not None:
                        srcs = [rv.ops[0].place.local]
                    elif rv.kind in ('ref', 'rawptr'):
                        srcs = [rv.place.local]
                    elif rv.kind == 'aggregate':
                        srcs = [o.place.local for _, o in (rv.extra or []) if o.place is not None]
                    elif rv.kind == 'use' and rv.ops and rv.ops[0].kind == 'const':
                        srcs = []
                    if any(x not in priv for x in srcs):
                        ok = False
                else:
                    n = P.callee_name(d)
                    if FRESH_CALLS.search(n) or n.endswith('Shared::null'):
                        continue
                    if PASS_THROUGH.search(n):
                        if any(a.place is not None and a.place.local not in priv for a in d.args):
                            ok = False
                        continue
                    ok = False
                if not ok:
                    break
            if not defs.get(l):
                ok = l in private_params
            if not ok:
                priv.discard(l)
                changed = True
    return priv


class RootLockMonitor(P.Monitor):
    """state 1 between lock_root and unlock_root; BAD when the watched block executes in state 0"""
    name = 'inside-root-lock'

    def __init__(self, watch: int, start_locked: bool):
        self.watch = watch
        self.start = 1 if start_locked else 0

    def init(self, fn):
        return self.start

    def step(self, fn, block, edge, st):
        if edge.kind == 'unwind':
            return None
        if block.idx == self.watch and st == 0:
            return P.BAD
        t = block.term
        if t.kind == 'call':
            n = P.callee_name(t)
            if n.endswith('TreeBin::lock_root') and edge.kind == 'ret':
                return 1
            if n.endswith('TreeBin::unlock_root') and edge.kind == 'ret':
                return 0
        return st


def site_query(label: str, w_pub: str, r_obs: str, link_ord: Optional[str], cross: bool = True) -> bool:
    """RC11 fragment over <= 6 events; returns True iff a racy consistent execution exists"""
    ev = ['Wi', 'Wl', 'Wp', 'Ro', 'Rl', 'Rp'] if link_ord else ['Wi', 'Wp', 'Ro', 'Rp']
    idx = {e: i for i, e in enumerate(ev)}
    n = len(ev)
    hb = [[z3.Bool('%s_hb_%s_%s' % (label, a, b)) for b in ev] for a in ev]
    po = set()
    wt = ['Wi', 'Wl', 'Wp'] if link_ord else ['Wi', 'Wp']
    rd = ['Ro', 'Rl', 'Rp'] if link_ord else ['Ro', 'Rp']
    for seq in (wt, rd):
        for i in range(len(seq)):
            for j in range(i + 1, len(seq)):
                po.add((seq[i], seq[j]))
    sw = z3.Bool(label + '_sw')
    s = z3.Solver()
    is_rel = z3.BoolVal(w_pub in REL)
    is_acq = z3.BoolVal(r_obs in ACQ)
    s.add(sw == z3.And(is_rel, is_acq))          # rf(Wp, Ro) is part of the scenario
    # hb is the least relation closed under po, sw and transitivity: encode with ranks (well-founded justification)
    rank = [[z3.Int('%s_rk_%s_%s' % (label, a, b)) for b in ev] for a in ev]
    for a in ev:
        for b in ev:
            i, j = idx[a], idx[b]
            base = []
            if (a, b) in po:
                base.append(z3.BoolVal(True))
            if a == 'Wp' and b == 'Ro':
                base.append(sw)
            closure = [z3.And(hb[i][idx[c]], hb[idx[c]][j]) for c in ev if c not in (a, b)]
            just = [z3.And(hb[i][idx[c]], hb[idx[c]][j], rank[i][idx[c]] < rank[i][j], rank[idx[c]][j] < rank[i][j]) for c in ev if c not in (a, b)]
            if a == b:
                s.add(z3.Not(hb[i][j]))
                continue
            # closed under po, sw and transitivity ...
            for cnd in base + closure:
                s.add(z3.Implies(cnd, hb[i][j]))
            # ... and nothing else (every hb edge has a well-founded justification)
            s.add(z3.Implies(hb[i][j], z3.Or(base + just) if (base or just) else z3.BoolVal(False)))
            s.add(rank[i][j] >= 0)
    s.add(z3.Not(hb[idx['Wi']][idx['Rp']]))       # the race
    return C.check(s, 'C15 ' + label, cross=cross) == 'sat'


# ---- observing side: pointers obtained from shared cells by swap / compare_exchange (loads go through Guard::protect) -------

OBS_SAFE = re.compile(r'(Shared::is_null$|Shared as PartialEq>::(eq|ne)$|Option as PartialEq>::(eq|ne)$|panicking::|assert_failed|retire_shared$|Guard::defer_retire$|'
                      r'fmt::|Debug>::fmt$|mem::drop$|mem::forget$|Result::is_ok$|Result::is_err$|Option::is_some$|Option::is_none$|Guard::retire$)')
OBS_PROPAGATE = re.compile(r'(Shared as Clone>::clone$|as From>::from$|Into>::into$|Shared as Copy>|Result::unwrap$|Result::expect$|Result::unwrap_err$|Result::ok$|Result::err$|Option::unwrap$|Option::expect$|'
                           r'Result::unwrap_or_else$|Result::map_err$)')


def _norm(proj) -> Tuple:
    out = []
    for e in proj:
        if e[0] == 'field':
            out.append(('f', e[1]))
        elif e[0] == 'downcast':
            out.append(('v', str(e[1]).split('::')[-1]))
        elif e[0] == 'deref':
            continue
        else:
            out.append(('x',))
    return tuple(out)


def _flow(taint: Tuple, read: Tuple) -> Optional[Tuple]:
    """what a read of path `read` yields when `taint` is the tainted sub-path of the same local: remainder, or None"""
    n = min(len(taint), len(read))
    for i in range(n):
        a, b = taint[i], read[i]
        if a == b:
            continue
        return None
    if len(read) <= len(taint):
        return taint[len(read):]
    return ()


def deref_uses(fn: M.Function, res_local: int, path: Tuple) -> List[str]:
    """uses (other than null tests, comparisons, retirement, formatting) of the pointer found at `path` inside `res_local`"""
    taints: Dict[int, Set[Tuple]] = {res_local: {path}}
    uses: List[str] = []
    seen_use = set()

    def reads(place) -> List[Tuple]:
        if place is None:
            return []
        out = []
        for tp in taints.get(place.local, ()):
            r = _flow(tp, _norm(place.proj))
            if r is not None:
                out.append(r)
        return out

    def add(local, pth) -> bool:
        cur = taints.setdefault(local, set())
        if pth in cur:
            return False
        cur.add(pth)
        return True
    changed = True
    while changed:
        changed = False
        for b in fn.blocks.values():
            for st in b.stmts:
                if st.kind != 'assign':
                    continue
                rv = st.rvalue
                got: List[Tuple] = []
                if rv.kind in ('use', 'cast') and rv.ops and rv.ops[0].place is not None:
                    got = reads(rv.ops[0].place)
                elif rv.kind in ('ref', 'rawptr', 'copyforderef') and rv.place is not None:
                    got = reads(rv.place)
                elif rv.kind == 'aggregate':
                    variant = None
                    if rv.op == 'adt' and rv.ty and re.search(r'(Option|Result|ControlFlow)(::<.*>)?::(\w+)$', M.strip_generics(rv.ty) if False else rv.ty):
                        variant = rv.ty.rsplit('::', 1)[-1]
                    for i, (fname, o) in enumerate(rv.extra or []):
                        for r in (reads(o.place) if o.place is not None else []):
                            pre = ((('v', variant),) if variant else ()) + (('f', i),)
                            got.append(pre + r)
                dest = _norm(st.place.proj)
                for r in got:
                    if add(st.place.local, dest + r):
                        changed = True
            t = b.term
            if t.kind == 'call':
                n = P.callee_name(t) if t.callee_op is None else '<indirect>'
                hit = []
                for a in t.args:
                    hit += reads(a.place) if a.place is not None else []
                if not hit:
                    continue
                if OBS_SAFE.search(n):
                    continue
                if OBS_PROPAGATE.search(n):
                    if t.place is not None:
                        for r in hit:
                            # unwrap-like calls strip one level of Option/Result
                            r2 = r
                            if re.search(r'(unwrap|expect|ok|err|unwrap_err|unwrap_or_else)$', n) and r2 and r2[0][0] == 'v':
                                r2 = r2[2:] if len(r2) > 1 else ()
                            if add(t.place.local, _norm(t.place.proj) + r2):
                                changed = True
                    continue
                key = (b.idx, n)
                if key not in seen_use and any(r == () or all(e[0] != 'x' for e in r) for r in hit):
                    # only a use of the pointer itself (or of a struct that contains it) counts
                    seen_use.add(key)
                    uses.append('%s @ %s' % (n, (t.span or '').split(': ')[0]))
    return uses


def observer_sites(prog: P.Program, chk: 'C.Check') -> List[Tuple[str, str, str]]:
    """every swap / compare_exchange on a pointer cell whose result is used as a pointer: the ordering under which that
    result is read must be acquire-or-stronger (query: W_init -> W_pub(release) -rf-> R_obs(ord) -> R_payload)"""
    bad: List[Tuple[str, str, str]] = []
    # Table::cas_bin forwards to Atomic::compare_exchange with these orderings
    wrap = prog.get('raw::Table::cas_bin')
    cas_ord = ('?', '?')
    for b in wrap.blocks.values():
        t = b.term
        if t.kind == 'call' and P.callee_name(t).endswith('reclaim::Atomic::compare_exchange'):
            ords = [ordering_of(wrap, a) for a in t.args if 'Ordering' in wrap.locals.get(a.place.local if a.place else -1, '')]
            if len(ords) == 2:
                cas_ord = (ords[0], ords[1])
    # Atomic::load must go through the collector's protect (which loads SeqCst); otherwise load sites are judged as written
    loadf = prog.get('reclaim::Atomic::load')
    via_protect = any(b.term.kind == 'call' and P.callee_name(b.term).endswith('Guard::protect') for b in loadf.blocks.values())
    chk.obligation('reclaim::Atomic::load reads through Guard::protect (SeqCst in seize 0.3)', 'holds' if via_protect else 'violated', nontrivial=False)
    nobs = 0
    for name, f in sorted(prog.fns.items()):
        if f.is_const or name.startswith('reclaim::Atomic::') or name.startswith('raw::Table::cas_bin') or re.search(r'(fmt|::test|tests::|Debug)', name):
            continue
        if name.endswith('drop_fields') or name.endswith('drop_tree_nodes') or ('<' in name and 'as Drop>' in name):
            continue        # (O) owned teardown: &mut self, no other thread can hold the object
        for b in f.blocks.values():
            t = b.term
            if t.kind != 'call' or t.place is None or t.callee_op is not None:
                continue
            n = P.callee_name(t)
            srcs: List[Tuple[str, Tuple, str]] = []     # (what, path in the result, ordering)
            if n.endswith('reclaim::Atomic::swap'):
                ords = [ordering_of(f, a) for a in t.args if 'Ordering' in f.locals.get(a.place.local if a.place else -1, '')]
                srcs.append(('swap result', (), ords[0] if ords else '?'))
            elif n.endswith('reclaim::Atomic::compare_exchange') or n.endswith('raw::Table::cas_bin'):
                if n.endswith('cas_bin'):
                    so, fo = cas_ord
                else:
                    ords = [ordering_of(f, a) for a in t.args if 'Ordering' in f.locals.get(a.place.local if a.place else -1, '')]
                    so, fo = (ords + ['?', '?'])[:2]
                srcs.append(('value read by the failed compare_exchange (Err.current)', (('v', 'Err'), ('f', 0), ('f', 0)), fo))
                srcs.append(('previous value returned by the successful compare_exchange', (('v', 'Ok'), ('f', 0)), so))
            elif not via_protect and (n.endswith('reclaim::Atomic::load') or n.endswith('raw::Table::bin')):
                ords = [ordering_of(f, a) for a in t.args if 'Ordering' in f.locals.get(a.place.local if a.place else -1, '')]
                srcs.append(('load result (not through Guard::protect)', (), ords[0] if ords else 'Acquire'))
            for what, pth, o in srcs:
                uses = deref_uses(f, t.place.local, pth)
                if not uses:
                    continue
                nobs += 1
                chk.encoded(f)
                site = '%s @ %s [%s, %s]' % (name, (t.span or '').split(': ')[0], what, o)
                racy = site_query('o%d' % nobs, 'Release', o, None, cross=(nobs % 5 == 0))
                chk.obligation('%s: the observing access is acquire-or-stronger (its result is used: %s)' % (site, uses[0]), 'unsat' if not racy else 'sat')
                if racy:
                    bad.append((site, 'the pointer is obtained with ordering %s and then used (%s); the publishing release store does not synchronise with it' % (o, '; '.join(uses[:3])),
                                'W_init -po-> W_pub(Release or stronger) -rf-> R_obs(%s: %s) -po-> R_payload ; R_obs is not an acquire, so there is no sw edge and hb(W_init, R_payload) does not hold' % (what, o)))
    chk.coverage['observing_sites'] = nobs
    # root-lock handshake: relaxed link stores inside lock_root..unlock_root reach in-tree readers / the next writer only
    # through the lock word: unlock_root must release, the entry CASes must acquire
    def std_ops(fname, kind):
        g = prog.get(fname)
        out = []
        for b in g.blocks.values():
            t = b.term
            if t.kind == 'call' and re.search(r'atomic::Atomic(I64|<i64>)?::%s$' % kind, P.callee_name(t)):
                ords = [ordering_of(g, a) for a in t.args if 'Ordering' in g.locals.get(a.place.local if a.place else -1, '')]
                out.append((ords, (t.span or '').split(': ')[0]))
        return g, out
    g_un, un = std_ops('node::TreeBin::unlock_root', 'store')
    if len(un) != 1:
        chk.inconclusive.append('unlock_root: expected exactly one store to lock_state, found %d' % len(un))
        return bad
    x = un[0][0][0]
    for fname in ('node::TreeBin::find', 'node::TreeBin::lock_root', 'node::TreeBin::contended_lock'):
        g, cs = std_ops(fname, 'compare_exchange')
        if not cs:
            chk.inconclusive.append('%s: no compare_exchange on lock_state recognised' % fname)
            continue
        chk.encoded(g)
        for ords, span in cs:
            y = ords[0] if ords else '?'
            # a CAS that only sets the WAITER bit does not enter the lock; it is still an RMW, judged like the others (conservative: all are SeqCst today)
            nobs += 1
            racy = site_query('h%d' % nobs, x, y, 'Relaxed', cross=True)
            site = '%s @ %s [lock_state compare_exchange %s] after unlock_root @ %s [store %s]' % (fname, span, y, un[0][1], x)
            chk.obligation('(L) handshake %s: links written inside the root lock are ordered before accesses made after this lock-word CAS' % site, 'unsat' if not racy else 'sat')
            if racy:
                bad.append((site, 'tree links are written Relaxed inside lock_root..unlock_root; the lock word is released with %s and re-acquired here with %s, which does not establish happens-before' % (x, y),
                            'W_init -po-> W_link(Relaxed, inside the root lock) -po-> W_unlock(lock_state store %s) -rf-> R_cas(lock_state %s) -po-> R_link -po-> R_payload ; no sw edge' % (x, y)))
    return bad


def run(tier: str) -> int:
    chk = C.Check('C15', tier, 'model_checking')
    prog = P.Program(C.mir_functions())
    chk.bounds = {'events': '<= 6 per graph, 2 threads; one graph per publication site', 'sites': 'every store/swap/compare_exchange on a pointer cell in the crate MIR, plus the Table wrappers',
                  'reader': 'guarded loads are SeqCst (seize 0.3 protect), so the reader side is acquire; the unprotected variant is reported as information only'}
    chk.assumptions = ['RC11 fragment: release/acquire synchronisation through rf, hb = (po U sw)+; no fences, no release sequences through RMWs by other threads are needed for these chains',
                       'seize\'s Guard::protect loads with SeqCst whatever ordering it is given when a collector is present (read from seize 0.3.3 raw.rs); unprotected guards are only used on owned maps',
                       'privacy of a receiver is a conservative intraprocedural taint (allocation sites and pass-through accessors listed in the module); TreeBin::new\'s list parameter is private iff every caller passes a private list (checked)',
                       'a weak-memory witness cannot be exhibited on x86; it is the event graph with file:line, cross-checked by cvc5']
    # orderings of the Table wrappers
    wrapper_ord: Dict[str, str] = {}
    for w in ('raw::Table::store_bin', 'raw::Table::cas_bin', 'raw::Table::bin'):
        f = prog.get(w)
        for b in f.blocks.values():
            t = b.term
            if t.kind == 'call' and P.callee_name(t).startswith('reclaim::Atomic::'):
                ords = [ordering_of(f, a) for a in t.args if 'Ordering' in f.locals.get(a.place.local if a.place else -1, '')]
                wrapper_ord[w] = ords[0] if ords else '?'
    chk.sample({'wrapper_orderings': wrapper_ord})
    reader = 'SeqCst'
    # TreeBin::new: is its parameter private at every call site?
    newf = prog.get('node::TreeBin::new')
    callers_private = True
    for name, f in prog.fns.items():
        if f.is_const:
            continue
        pl = None
        for b in f.blocks.values():
            t = b.term
            if t.kind == 'call' and P.callee_name(t).endswith('TreeBin::new') and f is not newf:
                if pl is None:
                    pl = private_locals(f, set())
                a = t.args[0]
                if a.place is None or a.place.local not in pl:
                    callers_private = False
                    chk.obligation('TreeBin::new is handed a private list by %s' % name, 'sat')
                else:
                    chk.obligation('TreeBin::new is handed a private list by %s' % name, 'unsat')
    violations = []
    nsites = 0
    # helper functions that only ever run on private lists or inside the root lock: decided at their call sites
    helpers = ('TreeNode::balance_insertion', 'TreeNode::balance_deletion', 'TreeNode::rotate_left', 'TreeNode::rotate_right')
    helper_ok: Dict[str, bool] = {}
    for h in helpers:
        ok = True
        for name, f in prog.fns.items():
            if f.is_const or any(name.endswith(x) for x in helpers):
                continue
            for b in f.blocks.values():
                t = b.term
                if t.kind == 'call' and P.callee_name(t).endswith(h):
                    if name.endswith('TreeBin::new'):
                        ok = ok and callers_private
                        continue
                    r = P.run_monitor(f, RootLockMonitor(b.idx, False), label='C15 %s called under the root lock in %s' % (h, name))
                    chk.obligation('(L) %s is only called inside the root-lock region of %s' % (h, name), 'unsat' if r.holds else 'sat')
                    ok = ok and r.holds
        helper_ok[h] = ok
    for name, f in sorted(prog.fns.items()):
        if f.is_const or re.search(r'(fmt|::test|tests::|num_cpus|Debug)', name):
            continue
        pl = None
        for b in f.blocks.values():
            t = b.term
            if t.kind != 'call':
                continue
            n = P.callee_name(t)
            last = n.rsplit('::', 1)[-1]
            is_ptr_store = (n.startswith('reclaim::Atomic::') and last in ('store', 'swap', 'compare_exchange')) or n in ('raw::Table::store_bin', 'raw::Table::cas_bin')
            if not is_ptr_store or name.startswith('raw::Table::store_bin') or name.startswith('raw::Table::cas_bin') or name.startswith('reclaim::Atomic::'):
                continue
            nsites += 1
            if n in wrapper_ord:
                w_ord = wrapper_ord[n]
            else:
                ords = [ordering_of(f, a) for a in t.args if 'Ordering' in f.locals.get(a.place.local if a.place else -1, '')]
                w_ord = ords[0] if ords else '?'
            chk.encoded(f)
            site = '%s @ %s [%s %s]' % (name, (t.span or '').split(': ')[0], last, w_ord)
            # stores of null publish nothing
            stored = t.args[2] if n == 'raw::Table::store_bin' else (t.args[1] if last in ('store', 'swap') else None)
            if w_ord in REL:
                racy = site_query('s%d' % nsites, w_ord, reader, None, cross=(nsites % 10 == 0))
                chk.obligation('%s: release-or-stronger publication synchronises with the acquiring reader' % site, 'unsat' if not racy else 'sat')
                if racy:
                    violations.append((site, 'solver found a race although the store is %s' % w_ord))
                continue
            # weaker than release: one of (P), (L), (O) must hold
            if name.endswith('drop_fields') or name.endswith('drop_tree_nodes') or '<' in name and 'as Drop>' in name:
                chk.obligation('%s: (O) owned teardown' % site, 'holds', nontrivial=False)
                continue
            hs = [h for h in helpers if name.endswith(h)]
            if (hs and helper_ok.get(hs[0])) or (name.endswith('TreeBin::new') and callers_private):
                # everything these functions touch is either a private list (TreeBin::new and its callees) or protected by the
                # root lock held by the caller (decided at the call sites above)
                racy = site_query('s%d' % nsites, 'Release', reader, w_ord, cross=False)
                chk.obligation('%s: (P/L) runs only on private lists or inside the caller\'s root-lock region' % site, 'unsat' if not racy else 'sat')
                if racy:
                    violations.append((site, 'link not covered by the later publication'))
                continue
            if pl is None:
                pp = set()
                if name.endswith('TreeBin::new') and callers_private:
                    pp = {f.params[0][0]}
                if any(name.endswith(h) for h in helpers) and helper_ok.get([h for h in helpers if name.endswith(h)][0]):
                    pp = {p for p, _ in f.params}
                pl = private_locals(f, pp)
            recv = t.args[0].place.local if t.args and t.args[0].place is not None else None
            if recv is not None and recv in pl:
                # (P): private receiver; the later publication is one of the release sites of the same function (or its caller)
                racy = site_query('s%d' % nsites, 'Release', reader, w_ord, cross=False)
                chk.obligation('%s: (P) receiver is private; the link is ordered before the later release publication' % site, 'unsat' if not racy else 'sat')
                if racy:
                    violations.append((site, 'relaxed link on a private object is not covered by the later publication'))
                continue
            r = P.run_monitor(f, RootLockMonitor(b.idx, False), label='C15 (L) ' + site)
            if r.holds:
                chk.obligation('%s: (L) executes only inside lock_root..unlock_root' % site, 'unsat')
                continue
            racy = site_query('s%d' % nsites, w_ord, reader, None, cross=True)
            chk.obligation('%s: a store weaker than Release to a shared cell outside the root lock does not synchronise with its readers' % site, 'sat' if racy else 'unsat')
            if racy:
                violations.append((site, 'the store is %s, its receiver is reachable by other threads and it is not inside the root-lock region:\n%s' % (w_ord, P.describe_path(f, r.path, 20))))
    violations += observer_sites(prog, chk)
    chk.coverage['publication_sites'] = nsites
    chk.coverage['states'] = nsites
    chk.coverage['transitions'] = nsites
    chk.coverage['exhaustive'] = True
    if nsites < 60:
        chk.inconclusive.append('only %d publication sites recognised - front end out of date' % nsites)
    for v in violations:
        site, why = v[0], v[1]
        graph = v[2] if len(v) > 2 else 'W_init -po-> W_pub(%s) -rf-> R_obs(SeqCst, guarded) -po-> R_payload ; no sw edge, so hb(W_init, R_payload) does not hold' % site.split('[')[-1].rstrip(']')
        chk.violation('no-happens-before:' + site.split(' [')[0], '%s: %s\nevent graph: %s: the reader may see an uninitialised node/key/value' % (site, why, graph),
                      site + '\n' + why + '\n' + graph, 'graph_%s.txt' % re.sub(r'[^A-Za-z0-9]+', '_', site)[:80])
    return chk.finish()
