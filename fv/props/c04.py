"""C04 - every key and value is destroyed exactly once (mode B drop ledger, see fv/seqcheck.py)."""
from ._seq import run_property
from ._conc import conc_extra
from ..concheck import ConcScenario


def conc(tier):
    th = tier == 'thorough'
    return [
        # the bin crosses the treeify threshold while another writer changes its head
        ConcScenario('treeify/insert-vs-remove-head', hasher='const', capacity=40, prefill=list(range(8)), threads=[[('insert', 8)], [('remove', 0)]], preemptions=2, yield_loads=th),
        ConcScenario('treeify/insert-vs-insert', hasher='const', capacity=40, prefill=list(range(8)), threads=[[('insert', 8)], [('insert', 9)]], preemptions=2, yield_loads=th),
        ConcScenario('list/replace-vs-remove', hasher='identity', capacity=2, prefill=[0, 4], threads=[[('insert', 4)], [('remove', 4)]], preemptions=2),
        ConcScenario('empty-bin/insert-same-key', hasher='identity', capacity=2, prefill=[0], threads=[[('insert', 1)], [('insert', 1)]], preemptions=2),
    ]


def run(tier: str) -> int:
    return run_property('C04', tier, 'model_checking',
                        {'operations': 'as C02 (core alphabet of 8 operation kinds in quick); every scenario ends with guard drop, drop(map) and release of everything retired',
                         'ledger': 'every key/value instance (incl. clones made by transfer / treeify / untreeify) must be dropped exactly once; a refused try_insert value must come back intact and undropped; no allocation may remain'},
                        ['drop glue is executed by the interpreter: crate Drop impls (HashMap, Table, TreeBin) run from MIR, fields are dropped recursively'],
                        extra=conc_extra('C04', conc, None, 'every instance dropped exactly once (incl. the key of a failed CAS retry), nothing leaked'))
