"""C04 - every key and value is destroyed exactly once (mode B drop ledger, see fv/seqcheck.py)."""
from ._seq import run_property
from ._conc import conc_extra
from ..concheck import ConcScenario


def conc(tier):
    th = tier == 'thorough'
    return [
        # the bin crosses the treeify threshold while another writer changes its head
        ConcScenario('treeify/insert-vs-remove-head', hasher='const', capacity=40, prefill=list(range(8)), threads=[[('insert', 8)], [('remove', 0)]], preemptions=2, yield_loads=th),
        ConcScenario('treeify/insert-vs-insert', hasher='const', capacity=40, prefill=list(range(8)), threads=[[('insert', 8)], [('insert', 9)]], preemptions=2, yield_loads=th),
        ConcScenario('list/replace-vs-remove', hasher='identity', capacity=2, prefill=[0, 4], threads=[[('insert', 4)], [('remove', 4)]], preemptions=2),
        # a removed value is dropped after - never before - the last guard that could observe it: a reader that looks the entry up
        # while it is being removed from a tree bin keeps its reference until it releases its own guard
        ConcScenario('tree/get-removed-vs-compute-none', hasher='const', capacity=40, prefill=list(range(10)), threads=[[('get', 5)], [('compute_none', 5)]], preemptions=2, yield_loads=th),
        ConcScenario('tree/get-removed-vs-untreeify-by-compute', hasher='const', capacity=40, prefill=list(range(10)), setup_removes=[0, 1, 2], threads=[[('get', 3)], [('compute_none', 3)]], preemptions=2, yield_loads=th),
        ConcScenario('list/get-removed-vs-compute-none', hasher='identity', capacity=2, prefill=[0, 4], threads=[[('get', 4)], [('compute_none', 4)]], preemptions=2),
        ConcScenario('empty-bin/insert-same-key', hasher='identity', capacity=2, prefill=[0], threads=[[('insert', 1)], [('insert', 1)]], preemptions=2),
    ]


def run(tier: str) -> int:
    return run_property('C04', tier, 'model_checking',
                        {'operations': 'as C02 (core alphabet of 8 operation kinds in quick); every scenario ends with guard drop, drop(map) and release of everything retired',
                         'ledger': 'every key/value instance (incl. clones made by transfer / treeify / untreeify) must be dropped exactly once; a refused try_insert value must come back intact and undropped; no allocation may remain'},
                        ['drop glue is executed by the interpreter: crate Drop impls (HashMap, Table, TreeBin) run from MIR, fields are dropped recursively'],
                        extra=conc_extra('C04', conc, None, 'every instance dropped exactly once (incl. the key of a failed CAS retry), nothing leaked'))
