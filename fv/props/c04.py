"""C04 - every key and value is destroyed exactly once (mode B drop ledger, see fv/seqcheck.py)."""
from ._seq import run_property


def run(tier: str) -> int:
    return run_property('C04', tier, 'model_checking',
                        {'operations': 'as C02 (core alphabet of 8 operation kinds in quick); every scenario ends with guard drop, drop(map) and release of everything retired',
                         'ledger': 'every key/value instance (incl. clones made by transfer / treeify / untreeify) must be dropped exactly once; a refused try_insert value must come back intact and undropped; no allocation may remain'},
                        ['drop glue is executed by the interpreter: crate Drop impls (HashMap, Table, TreeBin) run from MIR, fields are dropped recursively'])
