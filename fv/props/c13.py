"""C13 - retain removes only what its predicate rejected; retain_force always removes (sequential core in mode B +
re-entrant replacement from inside the predicate)."""
from ._seq import run_property


def run(tier: str) -> int:
    return run_property('C13', tier, 'other',
                        {'operations': 'retain / retain_force over list bins (2-bin table, identity/constant/arbitrary hash) and a 10-node tree bin; the predicate\'s answers are symbolic Booleans; in the replace-inside-predicate scenarios the predicate replaces the value of the entry it is inspecting (through the real insert) before answering false',
                         'oracle': 'every entry visited exactly once with its own key instance and current value; exactly the rejected entries are removed (retain: unless their value was replaced after inspection; retain_force: always)'},
                        ['interleavings with other threads are NOT explored: the replacement between inspection and removal is produced re-entrantly from the predicate, which is the only way a single thread can reach that window'])
