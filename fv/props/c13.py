"""C13 - retain removes only what its predicate rejected; retain_force always removes (sequential core in mode B +
re-entrant replacement from inside the predicate)."""
from ._seq import run_property
from ._conc import conc_extra
from ..concheck import ConcScenario


def conc(tier):
    th = tier == 'thorough'
    return [
        # retain_force must remove every rejected key also when the bin head changes while it waits for the bin lock
        ConcScenario('list/retain_force-vs-remove-head', hasher='const', capacity=2, prefill=[0, 1, 2], threads=[[('retain_force_none',)], [('remove', 0)]], preemptions=2),
        ConcScenario('list/retain_force-vs-remove-tail', hasher='const', capacity=2, prefill=[0, 1, 2], threads=[[('retain_force_none',)], [('remove', 2)]], preemptions=2),
        # retain (not forced): a replacement that lands between the predicate's inspection and the removal must survive
        ConcScenario('list/retain-vs-replace-head', hasher='const', capacity=2, prefill=[0, 1], threads=[[('retain_none',)], [('insert', 0)]], preemptions=2),
        ConcScenario('list/retain-vs-replace-tail', hasher='const', capacity=2, prefill=[0, 1], threads=[[('retain_none',)], [('insert', 1)]], preemptions=2),
        ConcScenario('tree/retain-vs-replace', hasher='const', capacity=40, prefill=list(range(10)), threads=[[('retain_none',)], [('insert', 4)]], preemptions=1, yield_loads=th),
        ConcScenario('resize/retain_force-vs-insert', hasher='identity', capacity=1, prefill=[0], threads=[[('retain_force_none',)], [('insert', 1)]], preemptions=2, yield_loads=th),
    ]


def run(tier: str) -> int:
    return run_property('C13', tier, 'model_checking',
                        {'operations': 'retain / retain_force over list bins (2-bin table, identity/constant/arbitrary hash) and a 10-node tree bin; the predicate\'s answers are symbolic Booleans; in the replace-inside-predicate scenarios the predicate replaces the value of the entry it is inspecting (through the real insert) before answering false',
                         'oracle': 'every entry visited exactly once with its own key instance and current value; exactly the rejected entries are removed (retain: unless their value was replaced after inspection; retain_force: always)'},
                        ['interleavings with other threads are NOT explored: the replacement between inspection and removal is produced re-entrantly from the predicate, which is the only way a single thread can reach that window'],
                        extra=conc_extra('C13', conc, None, 'retain_force removes every rejected key although the bin changes under it'))
