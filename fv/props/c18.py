"""C18 - a panicking callback leaves the map consistent and unlocked.

Decided on the MIR's explicit unwind edges (fault enumeration over callback call sites; the i-th invocation is covered
by the loop re-entry edges of the CFG).  For every function of HashMap/HashSet (and the iterator adaptors) that calls a
user-supplied closure, z3 decides over the CFG x monitor product whether there is a path that

  U1  leaves the callback through its unwind edge and reaches `resume` with a bin lock still held,
  U2  performs a write to a shared cell / a retirement after the callback has started unwinding,
  U3  calls the callback although the current critical section has already written a shared cell or retired memory
      (then a panic would leave the entry being processed half-updated),
  U4  drops a *poisoning* lock guard (std::sync::MutexGuard) while unwinding from the callback (every later
      acquisition of that bin lock would then panic).

A `sat` answer is replayed natively: the closure panics at its i-th invocation under catch_unwind, afterwards the map
is compared with a model and a second thread writes to the same bin under a watchdog.
"""
from __future__ import annotations
import re
from typing import Dict, List, Set, Optional
from .. import common as C, mir as M, mirpath as P, native


class UnwindMonitor(P.Monitor):
    """state = (locks_held (0..2), wrote_in_cs (bool), phase) ; phase 0 normal, 1 unwinding from a callback"""
    name = 'callback-unwind'

    def __init__(self, prog: P.Program):
        self.prog = prog
        self.why: Dict[tuple, str] = {}

    def init(self, fn):
        return (0, False, 0)

    def step(self, fn, block, edge, st):
        held, wrote, phase = st
        t = block.term
        name = P.callee_name(t) if t.kind == 'call' else ''
        cb = P.is_user_callback(t)
        if edge.kind == 'unwind':
            if phase == 0:
                if not cb:
                    return None          # only panics raised by the user's closure are in scope
                if wrote:
                    self.why[(block.idx, 'U3')] = 'U3: the closure is called after this critical section already wrote shared state'
                    return P.BAD
                return (held, wrote, 1)
            # nested unwind during cleanup
            return None
        # normal edges
        if t.kind == 'call':
            if P.is_lock_acquire(name):
                if edge.kind == 'ret':
                    return (min(held + 1, 2), False, phase)
            elif P.is_lock_release(fn, t):
                if phase == 1 and 'std::sync' in (t.callee or ''):
                    self.why[(block.idx, 'U4')] = 'U4: a poisoning std::sync::MutexGuard is dropped while unwinding from the closure'
                    return P.BAD
                return (max(held - 1, 0), False, phase)
            elif P.is_shared_write(name) or P.is_retire(name):
                if phase == 1:
                    self.why[(block.idx, 'U2')] = 'U2: `%s` runs while unwinding from the closure' % name
                    return P.BAD
                if held > 0:
                    return (held, True, phase)
            elif cb and phase == 0 and wrote:
                self.why[(block.idx, 'U3')] = 'U3: the closure is called after this critical section already wrote shared state'
                return P.BAD
        elif t.kind == 'drop':
            ty = P.local_type(fn, t.place)
            if P.is_mutex_guard_type(ty):
                if phase == 1 and ('std::sync' in ty):
                    self.why[(block.idx, 'U4')] = 'U4: a poisoning std::sync::MutexGuard is dropped while unwinding from the closure'
                    return P.BAD
                return (max(held - 1, 0), False, phase)
        return st

    def at_exit(self, fn, exit_kind, st):
        held, wrote, phase = st
        if exit_kind == 'RESUME' and phase == 1 and held > 0:
            self.why[('exit', 'U1')] = 'U1: the panic leaves the function with a bin lock held'
            return P.BAD
        return st


def std_mutex_guard_types(fn: M.Function) -> List[str]:
    return [ty for ty in fn.locals.values() if 'std::sync' in ty and 'MutexGuard<' in ty]


REPLAY = r'''
use flurry::HashMap;
use std::panic::{catch_unwind, AssertUnwindSafe};
use std::sync::{mpsc, Arc};
use std::time::Duration;
#[derive(Clone, Default)]
struct Ident;
impl std::hash::BuildHasher for Ident { type Hasher = IdH; fn build_hasher(&self) -> IdH { IdH(0) } }
struct IdH(u64);
impl std::hash::Hasher for IdH {
    fn finish(&self) -> u64 { self.0 }
    fn write(&mut self, b: &[u8]) { for x in b { self.0 = (self.0 << 8) | *x as u64; } }
    fn write_u64(&mut self, v: u64) { self.0 = v; }
}
fn build(shape: &str) -> (Arc<HashMap<u64, u64, Ident>>, Vec<u64>) {
    // "list": 6 keys over a 16-bin table, 3 of them in bin 1.   "tree": 64-bin table, 12 keys sharing bin 1.
    let m = if shape == "tree" { HashMap::with_capacity_and_hasher(40, Ident) } else { HashMap::with_hasher(Ident) };
    let keys: Vec<u64> = if shape == "tree" { (0..12u64).map(|i| 1 + (i << 20)).collect() } else { vec![1, 17, 33, 2, 3, 4] };
    {
        let g = m.guard();
        for k in &keys { m.insert(*k, *k * 10, &g); }
    }
    (Arc::new(m), keys)
}
fn consistent(m: &HashMap<u64, u64, Ident>, model: &std::collections::BTreeMap<u64, u64>) -> Result<(), String> {
    let g = m.guard();
    let mut seen = std::collections::BTreeMap::new();
    for (k, v) in m.iter(&g) { if seen.insert(*k, *v).is_some() { return Err(format!("key {} yielded twice", k)); } }
    if &seen != model { return Err(format!("contents {:?} differ from model {:?}", seen, model)); }
    if m.len() != model.len() { return Err(format!("len() = {} but {} entries", m.len(), model.len())); }
    for (k, v) in model { if m.get(k, &g) != Some(v) { return Err(format!("get({}) = {:?}, model {:?}", k, m.get(k, &g), v)); } }
    Ok(())
}
fn later_ops(m: Arc<HashMap<u64, u64, Ident>>, keys: Vec<u64>) -> Result<(), String> {
    // a second thread writes to the same bin; must finish (lock released) and must not panic (lock not poisoned)
    let (tx, rx) = mpsc::channel();
    let h = std::thread::spawn(move || {
        let r = catch_unwind(AssertUnwindSafe(|| {
            let g = m.guard();
            let k = keys[0];
            m.insert(k, 5, &g);
            m.compute_if_present(&k, |_, v| Some(v + 1), &g);
            m.remove(&k, &g);
            m.insert(k + (1 << 30), 1, &g);      // same bin, new key
            m.retain(|_, _| true, &g);
        }));
        let _ = tx.send(r.is_ok());
    });
    match rx.recv_timeout(Duration::from_secs(10)) {
        Ok(true) => { let _ = h.join(); Ok(()) }
        Ok(false) => Err("a later operation on the same bin panicked".into()),
        Err(_) => Err("a later operation on the same bin blocked for 10 s (lock still held)".into()),
    }
}
fn main() {
    std::panic::set_hook(Box::new(|_| {}));
    let mut bad = 0;
    for shape in ["list", "tree"] {
        for op in ["compute_some", "compute_none", "retain", "retain_force"] {
            let n_keys = build(shape).1.len();
            let max_i = if op.starts_with("compute") { 1 } else { n_keys };
            for i in 1..=max_i {
                let (m, keys) = build(shape);
                let mut model: std::collections::BTreeMap<u64, u64> = keys.iter().map(|k| (*k, *k * 10)).collect();
                let mut calls = 0usize;
                let mut rejected: Vec<u64> = Vec::new();
                let r = catch_unwind(AssertUnwindSafe(|| {
                    let g = m.guard();
                    match op {
                        "compute_some" => { m.compute_if_present(&keys[1], |_, v| { calls += 1; if calls == i { panic!("boom") } Some(v + 1) }, &g); }
                        "compute_none" => { m.compute_if_present(&keys[1], |_, _| { calls += 1; if calls == i { panic!("boom") } None }, &g); }
                        "retain" => { m.retain(|k, _| { calls += 1; if calls == i { panic!("boom") } rejected.push(*k); false }, &g); }
                        _ => { m.retain_force(|k, _| { calls += 1; if calls == i { panic!("boom") } rejected.push(*k); false }, &g); }
                    }
                }));
                if r.is_ok() { println!("shape={} op={} i={} NOTE closure did not panic", shape, op, i); continue; }
                for k in &rejected { model.remove(k); }
                let c = consistent(&m, &model);
                let l = later_ops(m.clone(), keys.clone());
                let ok = c.is_ok() && l.is_ok();
                if !ok { bad += 1; }
                println!("shape={} op={} i={} consistent={:?} later={:?}", shape, op, i, c, l);
            }
        }
    }
    println!("bad={}", bad);
    std::process::exit(0);
}
'''


def callback_functions(prog: P.Program) -> List[M.Function]:
    out = []
    for name, f in prog.fns.items():
        if f.is_const:
            continue
        if not re.match(r'(map::HashMap|set::HashSet|map_ref::HashMapRef|set_ref::HashSetRef|iter::|traverser::|<iter::|<traverser::)', name):
            continue
        if any(P.is_user_callback(b.term) for b in f.blocks.values()):
            out.append(f)
    return out


def run(tier: str) -> int:
    chk = C.Check('C18', tier, 'fault_enumeration')
    prog = P.Program(C.mir_functions())
    chk.bounds = {'fault_points': 'every call of a user closure in the MIR (unwind edge); the i-th invocation is covered by CFG loop edges, i unbounded',
                  'path_length': 'unbounded (complete for the finite CFG x drop-flags x monitor product)',
                  'native_replay': 'list bin (3 colliding keys of 6) and tree bin (12 colliding keys, 64 bins); panic at every i up to the number of entries'}
    chk.assumptions = [
        'only panics raised by the closure passed to compute_if_present / retain / retain_force are fault points (K::clone, K::cmp, Hash are outside the property)',
        'effect classes by callee name: parking_lot Mutex::lock acquires, dropping a MutexGuard releases, reclaim::Atomic::{store,swap,compare_exchange} / Table::{store_bin,cas_bin} / std atomics write, retire_shared / defer_drop_without_values retire',
        'rustc drop flags are tracked exactly (bool locals only assigned constants)',
        'consistency of the *contents* after a panic in retain (count vs entries) is decided by the concrete-heap engine where available, not here',
    ]
    fns = callback_functions(prog)
    sites = 0
    failing = []
    nstates = ntrans = 0
    for f in fns:
        chk.encoded(f)
        cbs = [b for b in f.blocks.values() if P.is_user_callback(b.term)]
        sites += len(cbs)
        mon = UnwindMonitor(prog)
        r = P.run_monitor(f, mon, label='C18 unwind ' + f.name)
        nstates += r.nodes
        ntrans += r.edges
        unwinds = [b for b in cbs if b.term.unwind is not None]
        chk.obligation('%s: %d closure call site(s); no lock held / no write / no poisoning on any unwind path' % (f.name, len(cbs)),
                       'unsat' if r.holds else 'sat', nontrivial=bool(unwinds), product_states=r.nodes)
        chk.sample({'function': f.name, 'closure_call_sites': [b.term.span for b in cbs], 'verdict': 'unsat' if r.holds else 'sat'})
        if not r.holds:
            failing.append((f, mon, r))
    chk.coverage['states'] = nstates
    chk.coverage['transitions'] = ntrans
    chk.coverage['fault_sites'] = sites
    chk.coverage['exhaustive'] = True
    if sites < 3:
        chk.inconclusive.append('fewer than 3 closure call sites found (%d): the MIR front end no longer recognises them' % sites)
    # ---- semantic half: the panic is injected in the concrete-heap interpreter, unwinding runs through the MIR's cleanup
    # blocks, afterwards the map must agree with the reference (entries removed by completed predicate calls are gone,
    # the entry being processed is unchanged), len()/iteration/lookups agree, no lock is held, later operations work.
    from .. import campaign as K
    from ._seq import confirm
    scs = K.scenarios_for('C18', tier, C.SEED)
    results = K.run_scenarios(scs)
    own, foreign = K.summarize(chk, 'C18', results, scs)
    chk.coverage['states'] = nstates + chk.coverage.get('states', 0)
    chk.coverage['transitions'] = ntrans + chk.coverage.get('transitions', 0)
    byname = {s.name: s for s in scs}
    for r in results:
        if not r.get('error'):
            fs = [f for f in (r.get('findings') or []) if K.owner_of(f, 'C18') == 'C18']
            chk.obligation('panic scenario %s: after unwinding, all %d paths leave a consistent, unlocked map' % (r['name'], r.get('paths', 0)), 'unsat' if not fs else 'sat', nontrivial=r.get('paths', 0) > 1)
    seen = set()
    for f in own:
        key = (f.kind, f.scenario.rsplit('/', 1)[0], f.what[:50])
        if key in seen or len(seen) >= 3:
            continue
        seen.add(key)
        confirm(chk, 'C18', byname[f.scenario], f)
    if failing:
        p = native.run_program('c18', REPLAY, [], release=False, timeout=900)
        rows = re.findall(r'shape=(\S+) op=(\S+) i=(\d+) consistent=(.*?) later=(.*)', p.stdout)
        badrows = [r for r in rows if 'Err' in r[3] or 'Err' in r[4]]
        chk.coverage['traces_validated_against_impl'] = len(rows)
        for f, mon, r in failing:
            why = '; '.join(sorted(set(mon.why.values())))
            desc = '%s: %s\npath:\n%s' % (f.name, why, P.describe_path(f, r.path))
            if p.returncode != 0 or not rows:
                chk.inconclusive.append('native replay failed: ' + p.stderr[-800:])
            elif badrows:
                chk.violation('callback-unwind:' + f.name.split('#')[0], desc + '\nnative replay: ' + '; '.join('%s/%s i=%s consistent=%s later=%s' % b for b in badrows[:6]), REPLAY, 'panic_replay.rs')
            else:
                chk.inconclusive.append('%s: solver found a bad unwind path (%s) but the native panic replay saw a consistent, unlocked map in all %d runs' % (f.name, why, len(rows)))
    return chk.finish()
