"""C10 - cooperative resizing: no overlap, single publication, full completion.

 Part 1 (mirsym, bit-precise, ALL 31 legal table lengths): resize-stamp and threshold arithmetic read from the MIR of
   resize_stamp / add_count / help_transfer / try_presize / transfer.
 Part 3 (mode B): single-thread end-to-end resizes from 2..64 bins: the table doubles exactly, every entry ends in the bin
   its hash selects, the threshold becomes 0.75 of the new length, no marker / next table is left behind, drop(map) passes
   its next_table assertion, later growth still works.
 Part 2 (claiming and helper accounting under interleavings): see fv/props/c10_interleave (if registered) - otherwise
   NOT covered; stated in the evidence.
"""
from __future__ import annotations
import re
from typing import List
import z3
from .. import common as C, mir as M, mirpath as P, mirsym as S, campaign as K
from .c14 import mk_engine, self_ptr, guard_ptr, bv, is_pow2, MAXCAP
from ._seq import confirm


def legal(n):
    return z3.And(is_pow2(n), z3.ULE(n, bv(MAXCAP)))


def run(tier: str) -> int:
    chk = C.Check('C10', tier, 'model_checking')
    prog = P.Program(C.mir_functions())
    src = next(iter(prog.fns.values())).srcroot
    fields = S.struct_fields(src)
    chk.bounds = {'part1': 'all 31 legal table lengths (symbolic power of two <= 2^30), all 64-bit size_ctl / transfer_index values',
                  'part3': 'initial lengths 2, 4, 8, 64; up to 3 doublings; list bins and tree bins (split and unsplit); symbolic keys',
                  'threads': '1 (helpers and interleavings: not covered by parts 1 and 3)'}
    chk.assumptions = ['sequential semantics of compare_exchange inside one function', 'callees that are not inlined are havoc',
                       'part 2 of the design (k<=3 threads claiming strides / joining / leaving under every schedule) is not built: overlap of generations under real interleavings is NOT decided here']
    findings = []

    def oblige(name, assumptions, claim):
        ok, mdl = S.valid(assumptions, claim, 'C10 ' + name, cross=True)
        chk.obligation(name, 'unsat' if ok else 'sat')
        if not ok:
            findings.append((name, str(mdl)[:300]))
        return ok

    # ---- Q1/Q2 resize_stamp
    f = prog.get('map::HashMap::resize_stamp')
    chk.encoded(f)

    def stamp_term(nvar):
        eng = mk_engine(prog, fields)
        obs = eng.run(f, [S.Int(nvar, 'usize')], [legal(nvar)])
        rets = [o for o in obs if o.kind == 'return']
        pans = [o for o in obs if o.kind == 'panic']
        assert len(rets) == 1, 'resize_stamp is expected to be straight-line'
        return rets[0].args[0].v, pans, eng
    n = z3.BitVec('n', 64)
    m = z3.BitVec('m', 64)
    st_n, pans, eng = stamp_term(n)
    st_m, _, _ = stamp_term(m)
    shift = eng.eval_const('map::RESIZE_STAMP_SHIFT')
    maxres = eng.eval_const('map::MAX_RESIZERS')
    chk.sample({'function': 'resize_stamp', 'term': str(z3.simplify(st_n))[:300], 'RESIZE_STAMP_SHIFT': str(shift.v), 'MAX_RESIZERS': str(maxres.v)})
    for o in pans:
        ok, _ = S.satisfiable(o.pc, 'C10 resize_stamp panic?')
        chk.obligation('resize_stamp never panics (%s)' % o.name[:40], 'unsat' if not ok else 'sat')
        if ok:
            findings.append(('resize_stamp panics', o.name))
    sh = z3.ZeroExt(0, shift.v) if shift.v.size() == 64 else z3.ZeroExt(64 - shift.v.size(), shift.v)
    rs_n = st_n << sh
    rs_m = st_m << sh
    A = [legal(n), legal(m)]
    oblige('rs(n) = stamp(n) << SHIFT is negative for every legal n', A, rs_n < 0)
    oblige('rs(n)+2 .. rs(n)+MAX_RESIZERS stay negative and do not overflow', A, z3.And(rs_n + 2 < 0, rs_n + maxres.v < 0, rs_n + maxres.v > rs_n))
    oblige('the shift loses no stamp bit', A, z3.LShR(rs_n, sh) == st_n)
    oblige('stamps of different lengths differ in the high half (generations cannot be confused by any helper count)', A + [n != m], z3.LShR(rs_n, sh) != z3.LShR(rs_m, sh))
    oblige('MAX_RESIZERS fits below the stamp', A, z3.And(maxres.v > 0, maxres.v < (bv(1) << sh)))

    # ---- Q3/Q4 add_count + help_transfer + try_presize: values written to size_ctl
    def stamp_of_len(eng, t):
        return z3.substitute(st_n, (n, eng.table_len(t))) << sh
    for fname, has_n in (('map::HashMap::add_count', True), ('map::HashMap::help_transfer', False), ('map::HashMap::try_presize', False)):
        f = prog.get(fname)
        chk.encoded(f)
        eng = mk_engine(prog, fields, inline=('resize_stamp', 'Table::next_table'), observe=('HashMap::transfer',), loop_bound=1)
        sc0 = z3.BitVec('sc0', 64)
        tab0 = z3.BitVec('table0', 64)
        eng.cells['size_ctl'] = S.Int(sc0, 'isize')
        eng.cells['table'] = S.Ptr(tab0, 'table')
        eng.cell_ty.update({'size_ctl': 'isize', 'table': 'ptr', 'count': 'isize', 'transfer_index': 'isize', 'next_table': 'ptr'})
        tl = eng.table_len
        inv = [z3.Implies(tab0 != 0, legal(tl(tab0)))]
        if fname.endswith('add_count'):
            hint = S.Enum('Option', bv(1), {1: [S.Int(z3.BitVec('hint', 64), 'usize')], 0: []})
            args = [self_ptr(), S.Int(bv(1), 'isize'), hint, guard_ptr()]
        elif fname.endswith('help_transfer'):
            args = [self_ptr(), S.Ptr(tab0, "reclaim::Shared<'_, raw::Table<K, V>>"), guard_ptr()]
        else:
            args = [self_ptr(), S.Int(z3.BitVec('size', 64), 'usize'), guard_ptr()]
        obs = eng.run(f, args, inv)
        # only the first write on each path: later loop iterations start from cells this path itself has rewritten
        cas = [o for o in obs if o.kind == 'cas' and o.name == 'size_ctl' and not any(eng.obs[j].kind in ('call', 'cas', 'store') for j in o.trail)]
        chk.obligation('%s: reaches a size_ctl CAS (vacuity witness)' % fname, 'sat-expected' if cas else 'violated', nontrivial=False)
        for i, o in enumerate(cas):
            exp, new = o.args[0].v, o.args[1].v
            # which table's length is the stamp computed from on this path?  the table loaded/passed on this path
            tcur = tab0
            rs = stamp_of_len(eng, tcur)
            kind_init = z3.simplify(z3.And(*o.pc, exp >= 0))
            s1 = z3.Solver(); s1.add(*o.pc); s1.add(exp >= 0)
            init_possible = C.check(s1, 'C10 %s cas#%d initiating?' % (fname, i)) == 'sat'
            s2 = z3.Solver(); s2.add(*o.pc); s2.add(exp < 0); s2.add(new != -1)
            join_possible = C.check(s2, 'C10 %s cas#%d joining?' % (fname, i)) == 'sat'
            if init_possible and not fname.endswith('help_transfer'):
                oblige('%s cas#%d: a resize is initiated with size_ctl := rs(len)+2 (or -1 for table initialisation)' % (fname, i), o.pc + [exp >= 0], z3.Or(new == rs + 2, new == -1))
            if join_possible:
                oblige('%s cas#%d: a helper registers with size_ctl := sc+1' % (fname, i), o.pc + [exp < 0], new == exp + 1)
                oblige('%s cas#%d: nobody joins once the finisher is chosen (sc = rs+1) or the helper limit is reached' % (fname, i), o.pc + [exp < 0],
                       z3.And(exp != rs + 1, exp != rs + maxres.v))
    # ---- Q5 transfer: leaving decrements by one; exactly the thread that sees rs+2 finishes
    f = prog.get('map::HashMap::transfer')
    chk.encoded(f)
    eng = mk_engine(prog, fields, inline=('resize_stamp',), observe=('retire_shared',), loop_bound=1)
    tabp = S.Ptr(z3.BitVec('table', 64), "reclaim::Shared<'_, raw::Table<K, V>>")
    ntp = S.Ptr(z3.BitVec('next_table_arg', 64), "reclaim::Shared<'_, raw::Table<K, V>>")
    eng.cell_ty.update({'size_ctl': 'isize', 'transfer_index': 'isize', 'next_table': 'ptr', 'table': 'ptr'})
    ln = eng.table_len(tabp.v)
    obs = eng.run(f, [self_ptr(), tabp, ntp, guard_ptr()], [tabp.v != 0, ntp.v != 0, legal(ln), z3.ULT(ln, bv(MAXCAP)), eng.table_len(ntp.v) == ln << 1])
    rs = stamp_of_len(eng, tabp.v)
    cas_sc = [o for o in obs if o.kind == 'cas' and o.name == 'size_ctl']
    chk.obligation('transfer: reaches the leaving CAS (vacuity witness)', 'sat-expected' if cas_sc else 'violated', nontrivial=False)
    for i, o in enumerate(cas_sc):
        oblige('transfer leave#%d: a leaving thread decrements size_ctl by exactly one' % i, o.pc, o.args[1].v == o.args[0].v - 1)
    idx_of = {id(o): k for k, o in enumerate(eng.obs)}
    for i, o in enumerate(cas_sc):
        k = idx_of[id(o)]
        after = [p for p in eng.obs if k in p.trail]
        rets_now = [p for p in after if p.kind == 'return' and p.trail and p.trail[-1] == k]
        for p in rets_now:
            oblige('transfer leave#%d: a thread that returns right after leaving was not the last one (sc-2 != rs)' % i, p.pc, o.args[0].v - 2 != rs)
        cont = [p for p in after if not (p.kind == 'return' and p.trail and p.trail[-1] == k) and p.kind != 'panic']
        for p in cont[:6]:
            oblige('transfer leave#%d: only the thread that saw sc = rs+2 goes on to finish (%s)' % (i, p.kind), p.pc, o.args[0].v - 2 == rs)
    cas_ti = [o for o in obs if o.kind == 'cas' and o.name == 'transfer_index']
    for i, o in enumerate(cas_ti):
        nx, nb = o.args[0].v, o.args[1].v
        oblige('transfer claim#%d: a claimed stride is [bound, next_index) with bound = max(next_index - stride, 0), stride >= 16' % i, o.pc, z3.And(nb >= 0, nb < nx, z3.Or(nb == 0, nx - nb >= 16)))
    # ---- Q6: the threshold published by the finisher, for every legal old length
    pubs = []
    for b in f.blocks.values():
        t = b.term
        if t.kind == 'call' and P.callee_name(t).endswith('atomic::Atomic::store') and t.args and t.args[0].place is not None:
            # is the first argument a reference to self.size_ctl ?  (look at its defining statement)
            loc = t.args[0].place.local
            for bb in f.blocks.values():
                for s in bb.stmts:
                    if s.kind == 'assign' and not s.place.proj and s.place.local == loc and s.rvalue.kind == 'ref' and s.rvalue.place.proj and s.rvalue.place.proj[-1][0] == 'field' \
                            and fields.get(('HashMap', s.rvalue.place.proj[-1][1])) == 'size_ctl':
                        pubs.append(b)
    chk.obligation('transfer: the finisher\'s threshold store is found in the MIR', 'sat-expected' if pubs else 'violated', nontrivial=False)
    nloc = f.debug.get('n')
    preds = {}
    for b in f.blocks.values():
        for sidx in b.term.successors(False):
            preds.setdefault(sidx, []).append(b.idx)
    for b in pubs:
        # walk back along the straight-line chain that computes the stored value
        start = b.idx
        for _ in range(12):
            ps = preds.get(start, [])
            if len(ps) != 1:
                break
            pb = f.blocks[ps[0]]
            if pb.term.kind not in ('assert', 'goto') and not (pb.term.kind == 'call' and not P.is_shared_write(P.callee_name(pb.term)) and not pb.term.callee_op):
                break
            if pb.term.kind == 'call' and 'retire_shared' in P.callee_name(pb.term):
                break
            start = ps[0]
        eng = mk_engine(prog, fields)
        eng.cell_ty['size_ctl'] = 'isize'
        nsym = z3.BitVec('n_old', 64)
        eng.stop_after = lambda nm: False
        obs = eng.run_from(f, start, {1: self_ptr(), nloc: S.Int(nsym, 'usize')} if isinstance(nloc, int) else {1: self_ptr()}, [legal(nsym), z3.ULT(nsym, bv(MAXCAP)), z3.UGE(nsym, bv(1))])
        st = [o for o in obs if o.kind == 'store' and o.name == 'size_ctl']
        chk.obligation('transfer: threshold store reached from bb%d (vacuity witness)' % start, 'sat-expected' if st else 'violated', nontrivial=False)
        for o in st[:2]:
            new_len = nsym << 1
            oblige('transfer: the published threshold is 0.75 of the new length for EVERY legal old length (incl. 1 and 2)', o.pc + [z3.UGE(nsym, bv(2))], o.args[0].v == new_len - z3.LShR(new_len, 2))
            chk.sample({'function': 'transfer', 'observation': 'value stored to size_ctl by the finisher', 'term': str(z3.simplify(o.args[0].v))[:200]})
        for o in [o for o in obs if o.kind == 'panic']:
            ok, _ = S.satisfiable(o.pc, 'C10 finisher arithmetic overflow?')
            chk.obligation('transfer: the finisher\'s threshold arithmetic cannot overflow (%s)' % o.name[:40], 'unsat' if not ok else 'sat')
            if ok:
                findings.append(('finisher arithmetic panics', o.name))

    # ---- part 3: end-to-end in mode B
    scs = K.scenarios_for('C10', tier, C.SEED)
    results = K.run_scenarios(scs)
    own, foreign = K.summarize(chk, 'C10', results, scs)
    byname = {s.name: s for s in scs}
    for r in results:
        if not r.get('error'):
            fs = [x for x in (r.get('findings') or []) if K.owner_of(x, 'C10') == 'C10']
            chk.obligation('resize scenario %s: %d paths; table doubles exactly, threshold 0.75*len, nothing left behind, drop(map) passes' % (r['name'], r.get('paths', 0)), 'unsat' if not fs else 'sat', nontrivial=r.get('paths', 0) > 0)
    seen = set()
    for x in own:
        key = (x.kind, x.what[:50])
        if key in seen or len(seen) >= 3:
            continue
        seen.add(key)
        confirm(chk, 'C10', byname[x.scenario], x)
    # part-1 findings: replay through the inspector (threshold after growing from every small length)
    if findings:
        from .. import native
        p = native.run_program('c10', REPLAY, [], release=True, timeout=600)
        bad = [l for l in p.stdout.split('\n') if l.startswith('BAD')]
        for name, mdl in findings:
            if bad:
                chk.violation('resize-arithmetic:' + name[:60], 'obligation `%s` fails (solver model %s)\nnative: %s' % (name, mdl, ' | '.join(bad[:5])), REPLAY, 'resize_replay.rs')
            else:
                chk.inconclusive.append('obligation `%s` fails (%s) but the native resize replay saw no discrepancy' % (name, mdl))
    return chk.finish()


REPLAY = r'''
use flurry::HashMap;
use flurry::verif_inspect as vi;
#[derive(Clone, Default)]
struct Ident;
impl std::hash::BuildHasher for Ident { type Hasher = IdH; fn build_hasher(&self) -> IdH { IdH(0) } }
struct IdH(u64);
impl std::hash::Hasher for IdH {
    fn finish(&self) -> u64 { self.0 }
    fn write(&mut self, b: &[u8]) { for x in b { self.0 = (self.0 << 8) | *x as u64; } }
    fn write_u64(&mut self, v: u64) { self.0 = v; }
}
fn main() {
    // stamps
    let shift = vi::resize_stamp_shift();
    let mut seen = std::collections::BTreeSet::new();
    for k in 0..=30u32 {
        let n = 1usize << k;
        let rs = vi::resize_stamp(n) << shift;
        if rs >= 0 || rs + 2 >= 0 || rs.checked_add(vi::max_resizers()).map(|x| x >= 0).unwrap_or(true) { println!("BAD stamp n={} rs={}", n, rs); }
        if !seen.insert(rs >> shift) { println!("BAD stamp of n={} collides", n); }
    }
    // grow from every small length by inserting collision-free keys; after each growth the threshold must be 0.75*len
    for cap in [1usize, 2, 3, 6, 12, 24, 48] {
        let m: HashMap<u64, u8, Ident> = HashMap::with_capacity_and_hasher(cap, Ident);
        let g = m.guard();
        let mut len = vi::table_len(&m);
        for k in 0..400u64 {
            let before = vi::table_len(&m);
            let cnt = vi::count(&m);
            let sc = vi::size_ctl(&m);
            m.insert(k, 0, &g);
            let after = vi::table_len(&m);
            if after != before {
                if after != before * 2 { println!("BAD growth {} -> {}", before, after); }
                if cnt + 1 < sc { println!("BAD grew at count {} below threshold {}", cnt + 1, sc); }
                len = after;
            } else if cnt + 1 >= sc && before < (1 << 30) {
                println!("BAD no growth at count {} threshold {} ({} bins)", cnt + 1, sc, before);
            }
            if vi::size_ctl(&m) != (len - (len >> 2)) as isize { println!("BAD threshold {} for {} bins", vi::size_ctl(&m), len); }
            if !vi::next_table_is_null(&m) { println!("BAD next_table left non-null"); }
        }
    }
    println!("done");
}
'''
