"""C10 - cooperative resizing: no overlap, single publication, full completion.

 Part 1 (mirsym, bit-precise, ALL 31 legal table lengths): resize-stamp and threshold arithmetic read from the MIR of
   resize_stamp / add_count / help_transfer / try_presize / transfer.
 Part 3 (mode B): single-thread end-to-end resizes from 2..64 bins: the table doubles exactly, every entry ends in the bin
   its hash selects, the threshold becomes 0.75 of the new length, no marker / next table is left behind, drop(map) passes
   its next_table assertion, later growth still works.
 Part 2 (claiming and helper accounting under interleavings): see fv/props/c10_interleave (if registered) - otherwise
   NOT covered; stated in the evidence.
"""
from __future__ import annotations
import re
from typing import List
import z3
from .. import common as C, mir as M, mirpath as P, mirsym as S, campaign as K
from .c14 import mk_engine, self_ptr, guard_ptr, bv, is_pow2, MAXCAP
from ._seq import confirm


def legal(n):
    return z3.And(is_pow2(n), z3.ULE(n, bv(MAXCAP)))


def run(tier: str) -> int:
    chk = C.Check('C10', tier, 'model_checking')
    prog = P.Program(C.mir_functions())
    src = next(iter(prog.fns.values())).srcroot
    fields = S.struct_fields(src)
    chk.bounds = {'part1': 'all 31 legal table lengths (symbolic power of two <= 2^30), all 64-bit size_ctl / transfer_index values',
                  'part3': 'initial lengths 2, 4, 8, 64; up to 3 doublings; list bins and tree bins (split and unsplit); symbolic keys',
                  'threads': 'parts 1 and 3: one thread; part 2: 2-3 logical threads'}
    chk.assumptions = ['sequential semantics of compare_exchange inside one function', 'callees that are not inlined are havoc',
                       'part 2 decides overlap / double migration only for the small cooperating-thread scenarios listed in bounds.part2 (<= 3 threads, <= 3 preemptions); a schedule-dependent counterexample is replayed in the interpreter, not natively']
    findings = []

    def oblige(name, assumptions, claim):
        ok, mdl = S.valid(assumptions, claim, 'C10 ' + name, cross=True)
        chk.obligation(name, 'unsat' if ok else 'sat')
        if not ok:
            findings.append((name, str(mdl)[:300]))
        return ok

    # ---- Q1/Q2 resize_stamp
    f = prog.get('map::HashMap::resize_stamp')
    chk.encoded(f)

    def stamp_term(nvar):
        eng = mk_engine(prog, fields)
        obs = eng.run(f, [S.Int(nvar, 'usize')], [legal(nvar)])
        rets = [o for o in obs if o.kind == 'return']
        pans = [o for o in obs if o.kind == 'panic']
        assert len(rets) == 1, 'resize_stamp is expected to be straight-line'
        return rets[0].args[0].v, pans, eng
    n = z3.BitVec('n', 64)
    m = z3.BitVec('m', 64)
    st_n, pans, eng = stamp_term(n)
    st_m, _, _ = stamp_term(m)
    shift = eng.eval_const('map::RESIZE_STAMP_SHIFT')
    maxres = eng.eval_const('map::MAX_RESIZERS')
    chk.sample({'function': 'resize_stamp', 'term': str(z3.simplify(st_n))[:300], 'RESIZE_STAMP_SHIFT': str(shift.v), 'MAX_RESIZERS': str(maxres.v)})
    for o in pans:
        ok, _ = S.satisfiable(o.pc, 'C10 resize_stamp panic?')
        chk.obligation('resize_stamp never panics (%s)' % o.name[:40], 'unsat' if not ok else 'sat')
        if ok:
            findings.append(('resize_stamp panics', o.name))
    sh = z3.ZeroExt(0, shift.v) if shift.v.size() == 64 else z3.ZeroExt(64 - shift.v.size(), shift.v)
    rs_n = st_n << sh
    rs_m = st_m << sh
    A = [legal(n), legal(m)]
    oblige('rs(n) = stamp(n) << SHIFT is negative for every legal n', A, rs_n < 0)
    oblige('rs(n)+2 .. rs(n)+MAX_RESIZERS stay negative and do not overflow', A, z3.And(rs_n + 2 < 0, rs_n + maxres.v < 0, rs_n + maxres.v > rs_n))
    oblige('the shift loses no stamp bit', A, z3.LShR(rs_n, sh) == st_n)
    oblige('stamps of different lengths differ in the high half (generations cannot be confused by any helper count)', A + [n != m], z3.LShR(rs_n, sh) != z3.LShR(rs_m, sh))
    oblige('MAX_RESIZERS fits below the stamp', A, z3.And(maxres.v > 0, maxres.v < (bv(1) << sh)))

    # ---- Q3/Q4 add_count + help_transfer + try_presize: values written to size_ctl
    def stamp_of_len(eng, t):
        return z3.substitute(st_n, (n, eng.table_len(t))) << sh
    for fname, has_n in (('map::HashMap::add_count', True), ('map::HashMap::help_transfer', False), ('map::HashMap::try_presize', False)):
        f = prog.get(fname)
        chk.encoded(f)
        eng = mk_engine(prog, fields, inline=('resize_stamp', 'Table::next_table'), observe=('HashMap::transfer',), loop_bound=1)
        sc0 = z3.BitVec('sc0', 64)
        tab0 = z3.BitVec('table0', 64)
        eng.cells['size_ctl'] = S.Int(sc0, 'isize')
        eng.cells['table'] = S.Ptr(tab0, 'table')
        eng.cell_ty.update({'size_ctl': 'isize', 'table': 'ptr', 'count': 'isize', 'transfer_index': 'isize', 'next_table': 'ptr'})
        tl = eng.table_len
        inv = [z3.Implies(tab0 != 0, legal(tl(tab0)))]
        if fname.endswith('add_count'):
            hint = S.Enum('Option', bv(1), {1: [S.Int(z3.BitVec('hint', 64), 'usize')], 0: []})
            args = [self_ptr(), S.Int(bv(1), 'isize'), hint, guard_ptr()]
        elif fname.endswith('help_transfer'):
            args = [self_ptr(), S.Ptr(tab0, "reclaim::Shared<'_, raw::Table<K, V>>"), guard_ptr()]
        else:
            args = [self_ptr(), S.Int(z3.BitVec('size', 64), 'usize'), guard_ptr()]
        obs = eng.run(f, args, inv)
        # only the first write on each path: later loop iterations start from cells this path itself has rewritten
        cas = [o for o in obs if o.kind == 'cas' and o.name == 'size_ctl' and not any(eng.obs[j].kind in ('call', 'cas', 'store') for j in o.trail)]
        chk.obligation('%s: reaches a size_ctl CAS (vacuity witness)' % fname, 'sat-expected' if cas else 'violated', nontrivial=False)
        for i, o in enumerate(cas):
            exp, new = o.args[0].v, o.args[1].v
            # which table's length is the stamp computed from on this path?  the table loaded/passed on this path
            tcur = tab0
            rs = stamp_of_len(eng, tcur)
            kind_init = z3.simplify(z3.And(*o.pc, exp >= 0))
            s1 = z3.Solver(); s1.add(*o.pc); s1.add(exp >= 0)
            init_possible = C.check(s1, 'C10 %s cas#%d initiating?' % (fname, i)) == 'sat'
            s2 = z3.Solver(); s2.add(*o.pc); s2.add(exp < 0); s2.add(new != -1)
            join_possible = C.check(s2, 'C10 %s cas#%d joining?' % (fname, i)) == 'sat'
            if init_possible and not fname.endswith('help_transfer'):
                oblige('%s cas#%d: a resize is initiated with size_ctl := rs(len)+2 (or -1 for table initialisation)' % (fname, i), o.pc + [exp >= 0], z3.Or(new == rs + 2, new == -1))
            if join_possible:
                oblige('%s cas#%d: a helper registers with size_ctl := sc+1' % (fname, i), o.pc + [exp < 0], new == exp + 1)
                oblige('%s cas#%d: nobody joins once the finisher is chosen (sc = rs+1) or the helper limit is reached' % (fname, i), o.pc + [exp < 0],
                       z3.And(exp != rs + 1, exp != rs + maxres.v))
    # ---- Q4b rely-guarantee: generations never overlap, for any number of other threads and ALL table lengths.
    # Before every atomic access of the function under analysis the shared cells (table, size_ctl, next_table,
    # transfer_index) are replaced by fresh values: other threads may have done anything that keeps the protocol
    # invariant INV and moves forward (RELY).  Guarantee to show: whenever the function calls transfer(t, nt) - after
    # registering itself in size_ctl - t is the table that is current at the instant of that registration.  A thread that
    # enters transfer with an older table works on generation k while size_ctl counts it in generation k+1: the overlap
    # the property excludes (the finisher accounting of both generations is then wrong).
    #   INV  I1 table != null => legal length
    #        I2 size_ctl < -1 => it carries the stamp of a legal length G with G = len(table), or
    #           (2G = len(table) and size_ctl = rs(G)+1 and next_table = null)   [finisher between table swap and size_ctl store]
    #        I3 size_ctl >= 0 and table != null => size_ctl = 0.75 len(table)
    #        I4 next_table != null => size_ctl < -1, G = len(table), len(next_table) = 2 len(table)
    #        I5 before initialisation size_ctl is 0 or the power-of-two length to allocate; the table is allocated at least that long
    #        I6 size_ctl = -1 together with a table => that table is the first table the map ever had
    #   RELY table lengths never decrease, a different table is strictly longer, equal length = same table; G never decreases
    fields_rg = dict(fields)
    for (owner, idx), nm in list(fields.items()):
        if owner == 'Table':
            fields_rg[(owner, idx)] = 'tbl_' + nm
    SHARED = ('table', 'size_ctl', 'next_table', 'transfer_index')
    rg_counter = [0]
    FT = z3.BitVec('first_table', 64)

    def asha(x):
        return x >> sh          # arithmetic shift on signed 64-bit

    def rs_of(nv):
        return z3.substitute(st_n, (n, nv)) << sh

    def inv_of(eng, T, SC, NT, G):
        tl = eng.table_len
        return [z3.Implies(T != 0, legal(tl(T))),
                z3.Implies(SC < -1, z3.And(legal(G), asha(SC) == asha(rs_of(G)), T != 0,
                                           z3.Or(G == tl(T), z3.And(G + G == tl(T), SC == rs_of(G) + 1, NT == 0)))),
                z3.Implies(z3.And(SC >= 0, T != 0), SC == tl(T) - z3.LShR(tl(T), 2)),
                z3.Implies(z3.And(SC > 0, T == 0), z3.And(is_pow2(SC), z3.ULE(SC, bv(MAXCAP)))),       # before initialisation size_ctl is the (power of two) table size to allocate
                z3.Implies(NT != 0, z3.And(SC < -1, G == tl(T), tl(NT) == tl(T) + tl(T), NT != T, legal(tl(NT)))),
                # FT = the first table this map ever had.  size_ctl = -1 (initialisation marker) coexists with a table only while
                # that table is the first one: between its publication and the threshold store, or transiently when a thread that
                # read "no table, size hint h" long ago wins CAS(h -> -1) against the equal threshold of the (2-bin) first table
                z3.Implies(T != 0, z3.And(FT != 0, z3.UGE(tl(T), tl(FT)), z3.Implies(tl(T) == tl(FT), T == FT))),
                z3.Implies(z3.And(SC == -1, T != 0), T == FT)]

    def rely_of(eng, p, q):
        tl = eng.table_len
        (T, SC, NT, G), (T2, SC2, NT2, G2) = p, q
        return [z3.Implies(T != 0, z3.And(T2 != 0, z3.UGE(tl(T2), tl(T)))),
                z3.Implies(z3.And(T != 0, T2 != T), z3.UGT(tl(T2), tl(T))),
                z3.Implies(z3.And(T != 0, T2 != 0, tl(T2) == tl(T)), T2 == T),
                z3.Implies(z3.And(SC < -1, SC2 < -1), z3.UGE(G2, G)),
                z3.Implies(SC < -1, z3.And(T2 != 0, z3.UGE(tl(T2), G))),
                z3.Implies(z3.And(T == 0, SC > 0, T2 != 0), z3.UGE(tl(T2), SC))]       # the table is allocated at least as long as the recorded hint

    def interfere(eng, cell, op):
        if cell not in SHARED:
            return
        rg_counter[0] += 1
        k = rg_counter[0]
        # the last state this path observed (own writes and havocked callees in between also only move the protocol forward)
        prev = eng.cells.get('__rg_last')
        T, SC, NT, G, TI = (z3.BitVec('%s_%d' % (nm, k), 64) for nm in ('T', 'SC', 'NT', 'G', 'TI'))
        import os
        if os.environ.get('VERIF_DEBUG_RG'):
            print('  interfere', k, cell, op, 'prev=', None if prev is None else [str(x)[:30] for x in prev])
        cs = inv_of(eng, T, SC, NT, G)
        if prev is not None:
            cs += rely_of(eng, prev, (T, SC, NT, G))
        for c in cs:
            eng.solver.add(c)
            eng.pc.append(c)
        eng.cells['table'] = S.Ptr(T, 'table')
        eng.cells['size_ctl'] = S.Int(SC, 'isize')
        eng.cells['next_table'] = S.Ptr(NT, 'next_table')
        eng.cells['transfer_index'] = S.Int(TI, 'isize')
        eng.cells['__G'] = S.Int(G, 'usize')
        eng.cells['__rg_last'] = (T, SC, NT, G)

    rg_fail = []
    for fname in ('map::HashMap::add_count', 'map::HashMap::help_transfer', 'map::HashMap::try_presize'):
        f = prog.get(fname)
        eng = mk_engine(prog, fields_rg, inline=('resize_stamp', 'Table::next_table'), observe=('HashMap::transfer',), loop_bound=1)
        eng.cell_ty.update({'size_ctl': 'isize', 'table': 'ptr', 'count': 'isize', 'transfer_index': 'isize', 'next_table': 'ptr', 'tbl_next_table': 'ptr'})
        eng.pre_atomic = interfere
        targ = z3.BitVec('t_arg', 64)
        if fname.endswith('add_count'):
            hint = S.Enum('Option', bv(1), {1: [S.Int(z3.BitVec('hint', 64), 'usize')], 0: []})
            args = [self_ptr(), S.Int(bv(1), 'isize'), hint, guard_ptr()]
            pre = []
        elif fname.endswith('help_transfer'):
            args = [self_ptr(), S.Ptr(targ, "reclaim::Shared<'_, raw::Table<K, V>>"), guard_ptr()]
            pre = [z3.Implies(targ != 0, legal(eng.table_len(targ)))]
        else:
            args = [self_ptr(), S.Int(z3.BitVec('size', 64), 'usize'), guard_ptr()]
            pre = []
        obs = eng.run(f, args, pre)
        nstates_rg = eng.steps
        calls = [o for o in obs if o.kind == 'call' and o.name.endswith('HashMap::transfer')]
        chk.obligation('%s (under interference): reaches a transfer call (vacuity witness)' % fname, 'sat-expected' if calls else 'violated', nontrivial=False)
        for i, o in enumerate(calls):
            t_arg, nt_arg = o.args[1], o.args[2]
            cells = o.extra['cells']
            if 'table' not in cells or not isinstance(t_arg, S.Ptr):
                chk.inconclusive.append('%s: transfer call #%d not analysable (%r)' % (fname, i, t_arg))
                continue
            T_now = cells['table'].v
            feas, _ = S.satisfiable(o.pc, 'C10 rg %s call#%d feasible?' % (fname, i))
            if not feas:
                continue
            name = '%s call#%d @ %s: transfer is entered with the table that is current when the thread registers in size_ctl (no generation overlap), for every interference allowed by INV/RELY' % (fname, i, (o.span or '').split(': ')[0])
            ok, mdl = S.valid(o.pc, t_arg.v == T_now, 'C10 rg ' + name[:60], cross=(i % 4 == 0))
            chk.obligation(name, 'unsat' if ok else 'sat')
            if not ok:
                tl = eng.table_len
                info = {'len(table passed to transfer)': mdl.eval(tl(t_arg.v), model_completion=True).as_long(), 'len(current table at the size_ctl CAS)': mdl.eval(tl(T_now), model_completion=True).as_long()}
                cas = [eng.obs[j] for j in o.trail if eng.obs[j].kind == 'cas' and eng.obs[j].name == 'size_ctl']
                if cas:
                    info['size_ctl expected by the CAS'] = mdl.eval(cas[-1].args[0].v, model_completion=True).as_signed_long()
                    info['size_ctl written'] = mdl.eval(cas[-1].args[1].v, model_completion=True).as_signed_long()
                rg_fail.append((fname, name, info, (o.span or '').split(': ')[0]))
                import os
                if os.environ.get('VERIF_DEBUG_RG'):
                    print('RGFAIL', fname, i, info)
                    for dcl in sorted(mdl.decls(), key=lambda x: x.name()):
                        nm = dcl.name()
                        if re.match(r'(T|SC|NT|G|TI)_\d+$', nm) or nm in ('t_arg', 'size', 'table_len'):
                            print('   ', nm, mdl[dcl] if nm == 'table_len' else (mdl[dcl].as_signed_long() if nm.startswith('SC') else hex(mdl[dcl].as_long())))
    chk.coverage['rely_guarantee'] = {'functions': ['add_count', 'help_transfer', 'try_presize'], 'interference_points': rg_counter[0]}
    chk.bounds['part1b'] = ('rely-guarantee: any number of other threads (modelled as arbitrary interference before every atomic access of add_count / help_transfer / try_presize), '
                            'all 31 legal table lengths, all 64-bit control-word values; retry loops unrolled once (a second iteration starts from a fresh interference state)')
    chk.assumptions += [
        'part 1b assumes of the OTHER threads only INV and RELY: I1 a table has a legal length; I2 size_ctl < -1 carries the stamp of len(table), or of len(table)/2 with value rs+1 and next_table = null '
        '(finisher between table swap and threshold store); I3 size_ctl >= 0 with a table is 0.75*len; I4 next_table != null implies a resize of the current table to twice its length; '
        'I5 before initialisation size_ctl is 0 or the power-of-two length to allocate and the table is allocated at least that long; I6 size_ctl = -1 with a table means it is the first table; '
        'RELY: lengths never decrease, a different table is strictly longer, equal length = same table, the generation in size_ctl never decreases',
        'INV/RELY are evaluated on the concrete heap after every scheduling step of the part-2 interleavings (coverage.protocol_invariant_evaluations); they are not proved inductive for transfer()',
    ]

    # ---- Q5 transfer: leaving decrements by one; exactly the thread that sees rs+2 finishes
    f = prog.get('map::HashMap::transfer')
    chk.encoded(f)
    eng = mk_engine(prog, fields, inline=('resize_stamp',), observe=('retire_shared',), loop_bound=1)
    tabp = S.Ptr(z3.BitVec('table', 64), "reclaim::Shared<'_, raw::Table<K, V>>")
    ntp = S.Ptr(z3.BitVec('next_table_arg', 64), "reclaim::Shared<'_, raw::Table<K, V>>")
    eng.cell_ty.update({'size_ctl': 'isize', 'transfer_index': 'isize', 'next_table': 'ptr', 'table': 'ptr'})
    ln = eng.table_len(tabp.v)
    obs = eng.run(f, [self_ptr(), tabp, ntp, guard_ptr()], [tabp.v != 0, ntp.v != 0, legal(ln), z3.ULT(ln, bv(MAXCAP)), eng.table_len(ntp.v) == ln << 1])
    rs = stamp_of_len(eng, tabp.v)
    cas_sc = [o for o in obs if o.kind == 'cas' and o.name == 'size_ctl']
    chk.obligation('transfer: reaches the leaving CAS (vacuity witness)', 'sat-expected' if cas_sc else 'violated', nontrivial=False)
    for i, o in enumerate(cas_sc):
        oblige('transfer leave#%d: a leaving thread decrements size_ctl by exactly one' % i, o.pc, o.args[1].v == o.args[0].v - 1)
    idx_of = {id(o): k for k, o in enumerate(eng.obs)}
    for i, o in enumerate(cas_sc):
        k = idx_of[id(o)]
        after = [p for p in eng.obs if k in p.trail]
        rets_now = [p for p in after if p.kind == 'return' and p.trail and p.trail[-1] == k]
        for p in rets_now:
            oblige('transfer leave#%d: a thread that returns right after leaving was not the last one (sc-2 != rs)' % i, p.pc, o.args[0].v - 2 != rs)
        cont = [p for p in after if not (p.kind == 'return' and p.trail and p.trail[-1] == k) and p.kind != 'panic']
        for p in cont[:6]:
            oblige('transfer leave#%d: only the thread that saw sc = rs+2 goes on to finish (%s)' % (i, p.kind), p.pc, o.args[0].v - 2 == rs)
    cas_ti = [o for o in obs if o.kind == 'cas' and o.name == 'transfer_index']
    for i, o in enumerate(cas_ti):
        nx, nb = o.args[0].v, o.args[1].v
        oblige('transfer claim#%d: a claimed stride is [bound, next_index) with bound = max(next_index - stride, 0), stride >= 16' % i, o.pc, z3.And(nb >= 0, nb < nx, z3.Or(nb == 0, nx - nb >= 16)))
    # ---- Q6: the threshold published by the finisher, for every legal old length
    pubs = []
    for b in f.blocks.values():
        t = b.term
        if t.kind == 'call' and P.callee_name(t).endswith('atomic::Atomic::store') and t.args and t.args[0].place is not None:
            # is the first argument a reference to self.size_ctl ?  (look at its defining statement)
            loc = t.args[0].place.local
            for bb in f.blocks.values():
                for s in bb.stmts:
                    if s.kind == 'assign' and not s.place.proj and s.place.local == loc and s.rvalue.kind == 'ref' and s.rvalue.place.proj and s.rvalue.place.proj[-1][0] == 'field' \
                            and fields.get(('HashMap', s.rvalue.place.proj[-1][1])) == 'size_ctl':
                        pubs.append(b)
    chk.obligation('transfer: the finisher\'s threshold store is found in the MIR', 'sat-expected' if pubs else 'violated', nontrivial=False)
    nloc = f.debug.get('n')
    preds = {}
    for b in f.blocks.values():
        for sidx in b.term.successors(False):
            preds.setdefault(sidx, []).append(b.idx)
    for b in pubs:
        # walk back along the straight-line chain that computes the stored value
        start = b.idx
        for _ in range(12):
            ps = preds.get(start, [])
            if len(ps) != 1:
                break
            pb = f.blocks[ps[0]]
            if pb.term.kind not in ('assert', 'goto') and not (pb.term.kind == 'call' and not P.is_shared_write(P.callee_name(pb.term)) and not pb.term.callee_op):
                break
            if pb.term.kind == 'call' and 'retire_shared' in P.callee_name(pb.term):
                break
            start = ps[0]
        eng = mk_engine(prog, fields)
        eng.cell_ty['size_ctl'] = 'isize'
        nsym = z3.BitVec('n_old', 64)
        eng.stop_after = lambda nm: False
        obs = eng.run_from(f, start, {1: self_ptr(), nloc: S.Int(nsym, 'usize')} if isinstance(nloc, int) else {1: self_ptr()}, [legal(nsym), z3.ULT(nsym, bv(MAXCAP)), z3.UGE(nsym, bv(1))])
        st = [o for o in obs if o.kind == 'store' and o.name == 'size_ctl']
        chk.obligation('transfer: threshold store reached from bb%d (vacuity witness)' % start, 'sat-expected' if st else 'violated', nontrivial=False)
        for o in st[:2]:
            new_len = nsym << 1
            oblige('transfer: the published threshold is 0.75 of the new length for EVERY legal old length (incl. 1 and 2)', o.pc + [z3.UGE(nsym, bv(2))], o.args[0].v == new_len - z3.LShR(new_len, 2))
            chk.sample({'function': 'transfer', 'observation': 'value stored to size_ctl by the finisher', 'term': str(z3.simplify(o.args[0].v))[:200]})
        for o in [o for o in obs if o.kind == 'panic']:
            ok, _ = S.satisfiable(o.pc, 'C10 finisher arithmetic overflow?')
            chk.obligation('transfer: the finisher\'s threshold arithmetic cannot overflow (%s)' % o.name[:40], 'unsat' if not ok else 'sat')
            if ok:
                findings.append(('finisher arithmetic panics', o.name))

    # ---- part 3: end-to-end in mode B
    scs = K.scenarios_for('C10', tier, C.SEED)
    results = K.run_scenarios(scs)
    own, foreign = K.summarize(chk, 'C10', results, scs)
    byname = {s.name: s for s in scs}
    for r in results:
        if not r.get('error'):
            fs = [x for x in (r.get('findings') or []) if K.owner_of(x, 'C10') == 'C10']
            chk.obligation('resize scenario %s: %d paths; table doubles exactly, threshold 0.75*len, nothing left behind, drop(map) passes' % (r['name'], r.get('paths', 0)), 'unsat' if not fs else 'sat', nontrivial=r.get('paths', 0) > 0)
    seen = set()
    for x in own:
        key = (x.kind, x.what[:50])
        if key in seen or len(seen) >= 3:
            continue
        seen.add(key)
        confirm(chk, 'C10', byname[x.scenario], x)
    # ---- part 2: cooperating threads under every schedule within the preemption bound (interleaving engine on the real MIR).
    # The crate's own generation asserts (`transfer`: next table is exactly twice as long; `add_count`/`help_transfer`:
    # stamps), a double migration (ledger: a node cloned / retired twice), a lost entry (linearizability + final contents)
    # and the end state (size_ctl = 0.75*len, next_table null, transfer_index, no lock held) are the oracles.
    from ..concheck import ConcScenario
    from ._conc import run_conc, report
    th = tier == 'thorough'
    pz = 3 if th else 2
    cs = [
        ConcScenario('coop/insert-vs-insert/2bins', hasher='identity', capacity=1, prefill=[0], threads=[[('insert', 1)], [('insert', 2)]], preemptions=pz, ncpu=2, inv='resize'),
        ConcScenario('coop/reserve-vs-reserve', hasher='identity', capacity=1, prefill=[0], threads=[[('reserve', 6)], [('reserve', 6)]], preemptions=2, ncpu=2, yield_loads=False, inv='resize'),
        ConcScenario('coop/reserve-vs-insert', hasher='identity', capacity=1, prefill=[0, 1], threads=[[('reserve', 6)], [('insert', 2)]], preemptions=2, ncpu=2, yield_loads=False, inv='resize'),
        # one preemption at every access (loads included): a thread suspended between any two reads of try_presize while the other finishes a whole resize
        ConcScenario('coop/reserve-big-vs-reserve-small/p1', hasher='identity', capacity=1, prefill=[0], threads=[[('reserve', 20)], [('reserve', 3)]], preemptions=1, ncpu=2, yield_loads=True, inv='resize'),
        ConcScenario('coop/reserve-vs-insert-growth/p1', hasher='identity', capacity=1, prefill=[0], threads=[[('reserve', 20)], [('insert', 1), ('insert', 2)]], preemptions=1, ncpu=2, yield_loads=True, inv='resize'),
        ConcScenario('coop/insert-x3/2bins', hasher='identity', capacity=1, prefill=[0], threads=[[('insert', 1)], [('insert', 2)], [('insert', 3)]], preemptions=(2 if th else 1), ncpu=4, yield_loads=False, inv='resize'),
        ConcScenario('coop/tree-replaced-vs-resize', hasher='const', capacity=40, prefill=list(range(10)), setup_removes=[0, 1, 2], threads=[[('compute_none', 3)], [('reserve', 40)]], preemptions=1, ncpu=2, yield_loads=th, inv='resize'),
    ]
    if th:
        cs.append(ConcScenario('coop/insert-x2/32bins-helpers', hasher='identity', capacity=20, prefill=list(range(23)), threads=[[('insert', 23)], [('insert', 24)]], preemptions=1, ncpu=4, yield_loads=False, inv='resize'))
        cs.append(ConcScenario('coop/reserve-x3', hasher='identity', capacity=1, prefill=[0], threads=[[('reserve', 6)], [('reserve', 12)], [('reserve', 6)]], preemptions=1, ncpu=4, yield_loads=False, inv='resize'))
    res = run_conc(cs)
    chk.bounds['part2'] = '%d scenarios of 2-3 logical threads that initiate / help / finish resizes of 2..64-bin tables (thorough: a 32-bin table with two strides), <= %d preemptions; num_cpus modelled as 2-4 so helpers get strides' % (len(cs), pz)
    report(chk, 'C10', res, cs, describe='generation asserts hold, every bin migrated once, single publication, end state not resizing, history linearizable')
    # part-1 findings: replay through the inspector (threshold after growing from every small length)
    if findings:
        from .. import native
        p = native.run_program('c10', REPLAY, [], release=True, timeout=600)
        bad = [l for l in p.stdout.split('\n') if l.startswith('BAD')]
        for name, mdl in findings:
            if bad:
                chk.violation('resize-arithmetic:' + name[:60], 'obligation `%s` fails (solver model %s)\nnative: %s' % (name, mdl, ' | '.join(bad[:5])), REPLAY, 'resize_replay.rs')
            else:
                chk.inconclusive.append('obligation `%s` fails (%s) but the native resize replay saw no discrepancy' % (name, mdl))
    # rely-guarantee failures: the counterexample is an interference (what other threads did between two reads), not a
    # schedule of this thread.  It is confirmed natively by a stress run of the unchanged crate: many threads grow a small map
    # through several generations at once; a reproduction is a map left in a resizing state after every thread has returned,
    # a panic in the resize asserts, or a panic in drop(map).
    if rg_fail:
        from .. import native
        import os
        src = open(os.path.join(C.VERIF, 'native', 'rg_stress.rs')).read()
        secs = 40 if tier == 'quick' else 180
        outs = []
        hit = None
        for nthreads in (8, 16):
            try:
                p = native.run_program('rgstress', src, [str(secs), str(nthreads)], release=True, timeout=secs + 240)
                line = (p.stdout or '').strip().split('\n')[-1]
            except native.subprocess.TimeoutExpired:
                line = 'stress rounds=? bad=1 first=the stress run did not return within %d s (threads blocked)' % (secs + 240)
            outs.append(line)
            m = re.search(r'bad=(\d+) first=(.*)', line)
            if m and int(m.group(1)) > 0:
                hit = line
                break
        for fname, name, info, span in rg_fail:
            desc = '%s\nsolver counterexample (interference between two reads of %s): %s\n' % (name, fname.split('::')[-1], info)
            if hit:
                chk.violation('generation-overlap:%s' % fname.split('::')[-1], desc + 'native stress replay (release build, unmodified crate + inspector): ' + hit, '// args: %d 8\n%s' % (secs, src), 'rg_stress.rs')
            else:
                chk.inconclusive.append('%s fails (%s) but %d s of native stress did not show an overlap (%s)' % (name[:120], info, secs, outs))
    return chk.finish()


REPLAY = r'''
use flurry::HashMap;
use flurry::verif_inspect as vi;
#[derive(Clone, Default)]
struct Ident;
impl std::hash::BuildHasher for Ident { type Hasher = IdH; fn build_hasher(&self) -> IdH { IdH(0) } }
struct IdH(u64);
impl std::hash::Hasher for IdH {
    fn finish(&self) -> u64 { self.0 }
    fn write(&mut self, b: &[u8]) { for x in b { self.0 = (self.0 << 8) | *x as u64; } }
    fn write_u64(&mut self, v: u64) { self.0 = v; }
}
fn main() {
    // stamps
    let shift = vi::resize_stamp_shift();
    let mut seen = std::collections::BTreeSet::new();
    for k in 0..=30u32 {
        let n = 1usize << k;
        let rs = vi::resize_stamp(n) << shift;
        if rs >= 0 || rs + 2 >= 0 || rs.checked_add(vi::max_resizers()).map(|x| x >= 0).unwrap_or(true) { println!("BAD stamp n={} rs={}", n, rs); }
        if !seen.insert(rs >> shift) { println!("BAD stamp of n={} collides", n); }
    }
    // grow from every small length by inserting collision-free keys; after each growth the threshold must be 0.75*len
    for cap in [1usize, 2, 3, 6, 12, 24, 48] {
        let m: HashMap<u64, u8, Ident> = HashMap::with_capacity_and_hasher(cap, Ident);
        let g = m.guard();
        let mut len = vi::table_len(&m);
        for k in 0..400u64 {
            let before = vi::table_len(&m);
            let cnt = vi::count(&m);
            let sc = vi::size_ctl(&m);
            m.insert(k, 0, &g);
            let after = vi::table_len(&m);
            if after != before {
                if after != before * 2 { println!("BAD growth {} -> {}", before, after); }
                if cnt + 1 < sc { println!("BAD grew at count {} below threshold {}", cnt + 1, sc); }
                len = after;
            } else if cnt + 1 >= sc && before < (1 << 30) {
                println!("BAD no growth at count {} threshold {} ({} bins)", cnt + 1, sc, before);
            }
            if vi::size_ctl(&m) != (len - (len >> 2)) as isize { println!("BAD threshold {} for {} bins", vi::size_ctl(&m), len); }
            if !vi::next_table_is_null(&m) { println!("BAD next_table left non-null"); }
        }
    }
    println!("done");
}
'''
