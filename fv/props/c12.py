"""C12 - reads never block and never take locks.

(i)  For every read entry point discovered in the MIR (get, get_key_value, contains_key, get_node, Table::find,
     TreeBin::find, find_tree_node, the iterator `next` functions and constructors, len, is_empty, equality, the set
     relations and the corresponding methods of the reference wrappers) z3 decides, over each reachable function's CFG
     and a least fixed point over the crate call graph (closures included), whether any path reaches a blocking
     primitive: Mutex::lock, TreeBin::lock_root / contended_lock, thread::park, thread::yield_now, or one of the
     helping/initialising functions that contain them (init_table, help_transfer, transfer, try_presize, add_count).
(ii) In isolation the tree read path cannot spin: on the CFG of TreeBin::find, with the compare-exchange failure edge
     removed (no other thread moves while the reader runs - the suspended-writer scenario of the property), every cycle
     through the loop head passes the load of the current element's `next` pointer (progress along a finite list) -
     decided as a reachability query on the CFG with that statement removed.  The same for Table::find's Moved chain
     (every cycle passes `next_table`) and its list walk (every cycle passes `next.load`).
A `sat` answer is replayed natively: a writer thread is parked *inside* a closure of compute_if_present (bin lock held,
list bin and tree bin) and every read operation must complete within a watchdog period.
"""
from __future__ import annotations
import re
from typing import Dict, List, Set
from .. import common as C, mir as M, mirpath as P, native

BLOCKING = re.compile(r'(lock_api::Mutex::lock$|Mutex::lock$|Mutex::try_lock|RwLock::(read|write)$|TreeBin::lock_root$|TreeBin::contended_lock$|thread::park$|(^|::)park$|thread::yield_now$|(^|::)yield_now$|thread::sleep$|Condvar::wait|Barrier::wait|hint::spin_loop$)')

READ_ROOTS = [
    r'^map::HashMap::(get|get_key_value|contains_key|get_node|len|is_empty|iter|keys|values|guarded_eq|hash)$',
    r'^<map::HashMap as PartialEq>::eq$', r'^raw::Table::(find|bin|bini|len|is_empty|next_table)$',
    r'^node::TreeBin::find$', r'^node::TreeNode::find_tree_node$',
    r'^<traverser::NodeIter as Iterator>::next$', r'^traverser::NodeIter::(new|push_state|recover_state)$',
    r'^<iter::(Iter|Keys|Values) as Iterator>::next$', r'^iter::Iter::next_internal$',
    r'^set::HashSet::(contains|get|len|is_empty|iter|is_disjoint|is_subset|is_superset|guarded_eq)$', r'^<set::HashSet as PartialEq>::eq$',
    r'^map_ref::HashMapRef::(get|get_key_value|contains_key|len|is_empty|iter|keys|values)$', r'^<map_ref::.* as (PartialEq|Index|IntoIterator)>::',
    r'^set_ref::HashSetRef::(contains|get|len|is_empty|iter|is_disjoint|is_subset|is_superset)$', r'^<set_ref::.* as (PartialEq|IntoIterator)>::',
]


class BlockMonitor(P.Monitor):
    name = 'no-blocking-call'

    def __init__(self, prog: P.Program, tainted: Set[str]):
        self.prog = prog
        self.tainted = tainted
        self.why = {}

    def step(self, fn, block, edge, st):
        if edge.kind == 'unwind':
            return None
        t = block.term
        if t.kind == 'call' and t.callee_op is None:
            n = P.callee_name(t)
            if BLOCKING.search(n):
                self.why[block.idx] = 'calls `%s`' % n
                return P.BAD
            for g in self.prog.resolve(n, len(t.args)):
                if g.name in self.tainted:
                    self.why[block.idx] = 'calls `%s`, which may block' % g.name
                    return P.BAD
        for s in block.stmts:
            if s.kind == 'assign' and s.rvalue.kind == 'aggregate' and s.rvalue.op == 'closure':
                from .c09 import closure_fn
                cl = closure_fn(self.prog, fn, s.rvalue.ty or '')
                if cl is not None and cl.name in self.tainted:
                    self.why[block.idx] = 'creates closure `%s`, which may block' % cl.name
                    return P.BAD
        return st


class CycleMonitor(P.Monitor):
    """reachability of `head` from the successors of `head` without passing a block that calls something matching
    `progress` and without taking a pruned edge: a cycle without progress."""
    name = 'cycle-without-progress'

    def __init__(self, head: int, progress, prune_edge):
        self.head = head
        self.progress = progress
        self.prune = prune_edge

    def init(self, fn):
        return 0

    def step(self, fn, block, edge, st):
        if edge.kind == 'unwind':
            return None
        if self.prune(fn, block, edge):
            return None
        if self.progress(fn, block):
            return None       # paths that make progress are fine: cut them
        if edge.dst == self.head:
            return P.BAD
        return st


def loop_heads(fn: M.Function) -> List[int]:
    """targets of back edges (DFS)"""
    heads = set()
    color: Dict[int, int] = {}
    stack = [(0, iter(_succ(fn, 0)))]
    color[0] = 1
    while stack:
        n, it = stack[-1]
        adv = False
        for s in it:
            if not isinstance(s, int):
                continue
            if color.get(s, 0) == 0:
                color[s] = 1
                stack.append((s, iter(_succ(fn, s))))
                adv = True
                break
            if color.get(s) == 1:
                heads.add(s)
        if not adv:
            color[n] = 2
            stack.pop()
    return sorted(heads)


def _succ(fn, b):
    return [e.dst for e in P.block_edges(fn, fn.blocks[b]) if e.kind != 'unwind']


def cas_failure_edge(fn: M.Function, block: M.Block, edge: P.Edge) -> bool:
    """the edge taken when an `is_ok()` of a compare_exchange result is false (or `is_err()` true)"""
    t = block.term
    if t.kind != 'switch' or t.discr.place is None:
        return False
    # find the definition of the discriminant: a call of Result::is_ok / is_err on a compare_exchange result
    loc = t.discr.place.local
    for b in fn.blocks.values():
        tt = b.term
        if tt.kind == 'call' and tt.place is not None and not tt.place.proj and tt.place.local == loc:
            n = P.callee_name(tt)
            if n.endswith('Result::is_ok') or n.endswith('Result::is_err'):
                src = tt.args[0].place.local if tt.args and tt.args[0].place is not None else None
                if src is not None and _defined_by_cas(fn, src):
                    ok_means_true = n.endswith('is_ok')
                    taken_true = (edge.kind == 'otherwise') or (edge.kind == 'case' and edge.value != 0)
                    return taken_true != ok_means_true
    return False


def _defined_by_cas(fn: M.Function, loc: int, depth: int = 0) -> bool:
    for b in fn.blocks.values():
        tt = b.term
        if tt.kind == 'call' and tt.place is not None and not tt.place.proj and tt.place.local == loc and 'compare_exchange' in P.callee_name(tt):
            return True
        for s in b.stmts:
            if s.kind == 'assign' and not s.place.proj and s.place.local == loc and s.rvalue.kind == 'ref' and depth < 4:
                if _defined_by_cas(fn, s.rvalue.place.local, depth + 1):
                    return True
    return False


REPLAY = r'''
use flurry::HashMap;
use std::sync::{mpsc, Arc, Barrier};
use std::time::Duration;
#[derive(Clone, Default)]
struct Ident;
impl std::hash::BuildHasher for Ident { type Hasher = IdH; fn build_hasher(&self) -> IdH { IdH(0) } }
struct IdH(u64);
impl std::hash::Hasher for IdH {
    fn finish(&self) -> u64 { self.0 }
    fn write(&mut self, b: &[u8]) { for x in b { self.0 = (self.0 << 8) | *x as u64; } }
    fn write_u64(&mut self, v: u64) { self.0 = v; }
}
fn main() {
    let mut bad = 0;
    for shape in ["list", "tree"] {
        let m: Arc<HashMap<u64, u64, Ident>> = Arc::new(if shape == "tree" { HashMap::with_capacity_and_hasher(40, Ident) } else { HashMap::with_hasher(Ident) });
        let keys: Vec<u64> = if shape == "tree" { (0..12u64).map(|i| 1 + (i << 20)).collect() } else { vec![1, 17, 33, 2, 3] };
        { let g = m.guard(); for k in &keys { m.insert(*k, *k, &g); } }
        let other: HashMap<u64, u64, Ident> = HashMap::with_hasher(Ident);
        { let g = other.guard(); for k in &keys { other.insert(*k, *k, &g); } }
        // writer: suspended inside the closure of compute_if_present => holds the bin lock of bin 1
        let (in_cs_tx, in_cs_rx) = mpsc::channel();
        let (go_tx, go_rx) = mpsc::channel::<()>();
        let mw = m.clone();
        let k0 = keys[1];
        let w = std::thread::spawn(move || {
            let g = mw.guard();
            mw.compute_if_present(&k0, |_, v| { in_cs_tx.send(()).unwrap(); let _ = go_rx.recv(); Some(*v) }, &g);
        });
        in_cs_rx.recv().unwrap();
        // reader: every read operation, on the locked bin, under a watchdog
        let (done_tx, done_rx) = mpsc::channel();
        let mr = m.clone();
        let ks = keys.clone();
        let r = std::thread::spawn(move || {
            let g = mr.guard();
            let mut acc = 0u64;
            for k in &ks { acc += *mr.get(k, &g).unwrap(); assert!(mr.contains_key(k, &g)); assert!(mr.get_key_value(k, &g).is_some()); }
            assert!(mr.get(&(1u64 << 40 | 1), &g).is_none());
            acc += mr.iter(&g).count() as u64 + mr.keys(&g).count() as u64 + mr.values(&g).count() as u64;
            acc += mr.len() as u64 + mr.is_empty() as u64;
            let p = mr.pin();
            acc += p.iter().count() as u64 + p.get(&ks[0]).copied().unwrap_or(0);
            assert!(*mr == other);
            done_tx.send(acc).unwrap();
        });
        match done_rx.recv_timeout(Duration::from_secs(10)) {
            Ok(_) => println!("shape={} reads completed while the writer held the bin lock", shape),
            Err(_) => { bad += 1; println!("shape={} BLOCKED: reads did not complete within 10 s while a writer was suspended in the bin's critical section", shape); }
        }
        go_tx.send(()).unwrap();
        let _ = w.join();
        if bad == 0 { let _ = r.join(); } else { break; }
        if shape == "tree" {
            // a writer suspended between lock_root and unlock_root (WRITER bit set, with and without WAITER)
            for st in [1i64, 3] {
                assert!(flurry::verif_inspect::force_tree_lock_state(&*m, 1, st));
                let (done_tx, done_rx) = mpsc::channel();
                let mr = m.clone();
                let ks = keys.clone();
                std::thread::spawn(move || {
                    let g = mr.guard();
                    let mut acc = 0u64;
                    for k in &ks { acc += *mr.get(k, &g).unwrap(); }
                    assert!(mr.get(&(1u64 << 40 | 1), &g).is_none());
                    acc += mr.iter(&g).count() as u64;
                    done_tx.send(acc).unwrap();
                });
                match done_rx.recv_timeout(Duration::from_secs(10)) {
                    Ok(_) => println!("shape=tree lock_state={} reads completed while the tree's root lock was held", st),
                    Err(_) => { bad += 1; println!("shape=tree lock_state={} BLOCKED: reads did not complete within 10 s while the tree's root lock was held by a suspended writer", st); }
                }
                if bad > 0 { break; }
                flurry::verif_inspect::force_tree_lock_state(&*m, 1, 0);
            }
        }
    }
    println!("blocked={}", bad);
    std::process::exit(0);
}
'''


def run(tier: str) -> int:
    chk = C.Check('C12', tier, 'model_checking')
    prog = P.Program(C.mir_functions())
    chk.bounds = {'paths': 'all CFG paths of every function reachable from the read entry points (complete; call graph followed to a fixed point, closures included)',
                  'isolation': 'part (ii): the reader runs alone (compare-exchange cannot fail); list/tree shapes arbitrary'}
    chk.assumptions = [
        'blocking primitives are recognised by callee name (parking_lot/std Mutex::lock, park, yield_now, sleep, Condvar/Barrier wait, spin_loop, TreeBin::lock_root/contended_lock)',
        'trait-generic callees (K::cmp, K::borrow, Hasher, V::eq) are user code and out of scope',
        'seize\'s Guard::protect is wait-free (trusted)',
    ]
    roots = []
    for n, f in prog.fns.items():
        if f.is_const:
            continue
        base = n.split('#')[0]
        if any(re.search(p, base) for p in READ_ROOTS):
            roots.append(f)
    # call-graph closure from the roots
    reach: Dict[str, M.Function] = {}
    work = list(roots)
    while work:
        f = work.pop()
        if f.name in reach:
            continue
        reach[f.name] = f
        for _, _, gs in prog.callees(f):
            work.extend(gs)
        work.extend(prog.closures_of(f))
    # least fixed point of "may block"
    tainted: Set[str] = set()
    results = {}
    monitors = {}
    nstates = ntrans = 0
    changed = True
    rounds = 0
    while changed:
        changed = False
        rounds += 1
        for name, f in reach.items():
            if name in tainted:
                continue
            mon = BlockMonitor(prog, tainted)
            r = P.run_monitor(f, mon, label='C12 %s round %d' % (name, rounds))
            results[name] = r
            monitors[name] = mon
            nstates += r.nodes
            ntrans += r.edges
            if not r.holds:
                tainted.add(name)
                changed = True
    bad_roots = []
    for f in roots:
        chk.encoded(f)
        r = results[f.name]
        chk.obligation('(i) %s: no path reaches a blocking primitive' % f.name, 'unsat' if f.name not in tainted else 'sat', product_states=r.nodes)
        if f.name in tainted:
            bad_roots.append(f)
    chk.sample({'read_entry_points': [f.name for f in roots][:40], 'functions_reachable': len(reach)})
    if len(roots) < 20:
        chk.inconclusive.append('only %d read entry points recognised - front end out of date' % len(roots))
    # (ii) no cycle without progress in isolation
    prog_specs = [
        ('node::TreeBin::find', r'(reclaim::Atomic::load$)', 'load of the next pointer'),
        ('raw::Table::find', r'(reclaim::Atomic::load$|raw::Table::next_table$)', 'load of next / next_table'),
        ('node::TreeNode::find_tree_node', r'(reclaim::Atomic::load$)', 'descent to a child'),
        ('<traverser::NodeIter as Iterator>::next', r'(reclaim::Atomic::load$|NodeIter::recover_state$|NodeIter::push_state$|raw::Table::bin$)', 'advance to next node / bin'),
    ]
    cyc_fail = []
    for fname, progress_re, what in prog_specs:
        try:
            f = prog.get(fname)
        except KeyError:
            chk.inconclusive.append('%s not found' % fname)
            continue
        chk.encoded(f)
        pre = re.compile(progress_re)
        heads = loop_heads(f)
        for h in heads:
            mon = CycleMonitor(h, lambda fn, b, pre=pre: b.term.kind == 'call' and bool(pre.search(P.callee_name(b.term))), cas_failure_edge)
            r = P.run_monitor(f, mon, label='C12 (ii) %s loop bb%d' % (fname, h), start_block=h)
            nstates += r.nodes
            ntrans += r.edges
            chk.obligation('(ii) %s: every cycle through bb%d makes progress (%s) when run in isolation' % (fname, h, what), 'unsat' if r.holds else 'sat')
            if not r.holds:
                cyc_fail.append((f, h, r))
        if not heads:
            chk.obligation('(ii) %s: loop-free' % fname, 'holds', nontrivial=False)
    chk.coverage['states'] = nstates
    chk.coverage['transitions'] = ntrans
    chk.coverage['exhaustive'] = True
    chk.coverage['fixed_point_rounds'] = rounds
    # (iii) the property's own quantifier on the real MIR: the writer is suspended at EVERY one of its scheduling points
    # (one preemption), the read then runs alone and must finish without ever blocking, spinning or exceeding the step bound
    from ..concheck import ConcScenario
    from ._conc import run_conc, report
    tree = list(range(10))
    cs = [
        # a writer suspended inside lazy table initialisation (size_ctl = -1, no table yet) / inside the first resize
        ConcScenario('suspend/init-vs-iter', hasher='identity', capacity=None, prefill=[], threads=[[('insert', 1)], [('iter',), ('keys',), ('len',), ('get', 1)]], preemptions=1, readers=[1]),
        ConcScenario('suspend/resize-vs-iter', hasher='identity', capacity=2, prefill=[0, 4], threads=[[('insert', 1)], [('iter',), ('len',)]], preemptions=1, readers=[1]),
        ConcScenario('suspend/resize-vs-get-hit', hasher='identity', capacity=2, prefill=[0, 4], threads=[[('insert', 1)], [('get', 4)]], preemptions=1, readers=[1]),
        ConcScenario('suspend/resize-vs-get-miss', hasher='identity', capacity=2, prefill=[0, 4], threads=[[('insert', 1)], [('get', 12)]], preemptions=1, readers=[1]),
        ConcScenario('suspend/resize-vs-get-miss-other-bin', hasher='identity', capacity=2, prefill=[0, 1, 4], setup_removes=[1], threads=[[('insert', 2)], [('get', 5)]], preemptions=1, readers=[1]),
        ConcScenario('suspend/compute-vs-get', hasher='identity', capacity=2, prefill=[0, 4], threads=[[('compute_inc', 4)], [('get', 4)]], preemptions=1, readers=[1]),
        ConcScenario('suspend/clear-vs-get', hasher='identity', capacity=2, prefill=[0, 4], threads=[[('clear',)], [('get', 0)]], preemptions=1, readers=[1]),
        ConcScenario('suspend/tree-insert-vs-get', hasher='samebin', capacity=40, prefill=tree, threads=[[('insert', 10)], [('get', 6)]], preemptions=1, readers=[1]),
        ConcScenario('suspend/tree-remove-vs-get-miss', hasher='const', capacity=40, prefill=tree, threads=[[('remove', 4)], [('get', 30)]], preemptions=1, readers=[1]),
        ConcScenario('suspend/untreeify-vs-get', hasher='const', capacity=40, prefill=tree, setup_removes=[0, 1, 2], threads=[[('remove', 3)], [('get', 8)]], preemptions=1, readers=[1]),
        ConcScenario('suspend/treeify-vs-get', hasher='const', capacity=40, prefill=list(range(8)), threads=[[('insert', 8)], [('get', 5)]], preemptions=1, readers=[1]),
    ]
    cres = run_conc(cs)
    chk.bounds['(iii)'] = 'writer suspended at each of its scheduling points (1 preemption), reader run in isolation; writers: insert with resize, compute, clear, tree insert/remove, untreeify, treeify; readers: get hit/miss'
    report(chk, 'C12', cres, cs, owned_kinds=('read-blocks', 'livelock', 'deadlock'), describe='the read finishes without blocking or spinning wherever the writer is suspended')
    if bad_roots or cyc_fail:
        p = native.run_program('c12', REPLAY, [], release=False, timeout=300)
        m = re.search(r'blocked=(\d+)', p.stdout)
        if not m:
            chk.inconclusive.append('native replay failed: ' + (p.stderr[-800:] or p.stdout[-300:]))
        else:
            chk.coverage['traces_validated_against_impl'] = 2
            blocked = int(m.group(1)) > 0
            lines = [l for l in p.stdout.split('\n') if l.startswith('shape=')]
            for f in bad_roots:
                # explain through the chain of tainted callees
                chain = [f.name]
                cur = f
                seen = set()
                while cur.name not in seen:
                    seen.add(cur.name)
                    r = results[cur.name]
                    last = r.path[-1][0][0] if r.path else None
                    why = monitors[cur.name].why.get(last, '')
                    chain.append(why)
                    m2 = re.search(r'`([^`]+)`, which may block', why)
                    if not m2 or m2.group(1) not in reach:
                        break
                    cur = reach[m2.group(1)]
                desc = '%s can reach a blocking primitive: %s\npath in %s:\n%s' % (f.name, ' -> '.join(chain), f.name, P.describe_path(f, results[f.name].path))
                if blocked:
                    chk.violation('read-blocks:' + f.name.split('#')[0], desc + '\nnative replay: ' + ' | '.join(lines), REPLAY, 'suspended_writer.rs')
                else:
                    chk.inconclusive.append('%s: a blocking call is reachable on the CFG (%s) but the native suspended-writer replay completed all reads' % (f.name, chain[1:]))
            for f, h, r in cyc_fail:
                desc = '%s: a cycle through bb%d makes no progress even when the reader runs alone\n%s' % (f.name, h, P.describe_path(f, r.path))
                if blocked:
                    chk.violation('read-spins:' + f.name.split('#')[0], desc + '\nnative replay: ' + ' | '.join(lines), REPLAY, 'suspended_writer.rs')
                else:
                    chk.inconclusive.append('%s: progress-free cycle through bb%d on the CFG, but the native suspended-writer replay completed all reads' % (f.name, h))
    # ---- (iv) iteration that lives across table generations terminates: the iterator scenarios of C07 (an iterator created
    # before / between resizes, bins forwarded and treeified under it), executed on the real MIR; C12 owns exactly the
    # non-termination findings (an iterator that keeps yielding: more than 10 000 items from a map of < 30 entries)
    from .. import campaign as K
    from ._seq import confirm
    scs = [x for x in K.scenarios_for('C07', tier, C.SEED)]
    res = K.run_scenarios(scs)
    byname = {x.name: x for x in scs}
    npaths = 0
    seen = set()
    for r in res:
        if r.get('error'):
            chk.inconclusive.append('iterator scenario %s: %s' % (r['name'], r['error']))
            continue
        npaths += r.get('paths', 0)
        fs = [x for x in (r.get('findings') or []) if 'does not terminate' in x.what or 'did not finish' in x.what]
        chk.obligation('(iv) iterator scenario %s: %d paths, every next() sequence ends (the iterator returns None after finitely many items)' % (r['name'], r.get('paths', 0)), 'unsat' if not fs else 'sat', nontrivial=r.get('paths', 0) > 0)
        for x in fs:
            key = x.scenario.rsplit('/', 1)[0]
            if key in seen or len(seen) >= 2:
                continue
            seen.add(key)
            confirm(chk, 'C12', byname[x.scenario], x)
    chk.bounds['(iv)'] = '%d sequential scripts with a live iterator across up to 3 table generations (identity / colliding / tree bins), %d paths' % (len(scs), npaths)
    chk.coverage['mir_statements_executed'] = chk.coverage.get('mir_statements_executed', 0) + sum(r.get('steps', 0) for r in res)
    return chk.finish()
