"""C09 - every guard-taking operation rejects guards of a foreign collector.

Path obligation on the MIR, one solver query per (function, guard parameter):
    is there a path from the entry of f to a *use* of the guard (handing it to a callee that does not itself check,
    storing it in an iterator, loading through it, retiring with it) or to a write of a shared cell that has not passed
    `check_guard(self, guard)`?
The set of functions is discovered from the MIR (every method of HashMap / HashSet that has a `&Guard` parameter, every
method of the reference wrappers), so a new method is covered without touching /verif.
A `sat` answer is replayed natively: the method is called with the guard of an unrelated collector on an empty and on a
populated map; only if it really returns (no panic) is a VIOLATION printed.
"""
from __future__ import annotations
import re
from typing import Dict, List, Set, Optional
from .. import common as C, mir as M, mirpath as P, native

GUARD_TY = re.compile(r"^&(?:'[a-z_]+ )?(?:seize::|reclaim::)?Guard<")


def is_guard_ty(ty: str) -> bool:
    return bool(GUARD_TY.match(ty.strip()))


def guard_aliases(fn: M.Function, root: int) -> Set[int]:
    al = {root}
    changed = True
    while changed:
        changed = False
        for b in fn.blocks.values():
            for s in b.stmts:
                if s.kind != 'assign' or s.place.proj:
                    continue
                rv = s.rvalue
                src = None
                if rv.kind == 'use' and rv.ops[0].place is not None and not rv.ops[0].place.proj:
                    src = rv.ops[0].place.local
                elif rv.kind == 'ref' and rv.place.proj == (('deref',),):
                    src = rv.place.local
                if src in al and s.place.local not in al:
                    al.add(s.place.local)
                    changed = True
    return al


def guard_roots(fn: M.Function) -> List[int]:
    """guard parameters, plus locals that receive a guard from a GuardRef (reference wrappers)"""
    roots = [n for n, ty in fn.params if is_guard_ty(ty)]
    for b in fn.blocks.values():
        t = b.term
        if t.kind == 'call' and P.callee_name(t).endswith('GuardRef as Deref>::deref') and t.place is not None and not t.place.proj:
            roots.append(t.place.local)
        # a guard read out of a captured environment / struct field (closures capturing the guard)
        for s in b.stmts:
            if s.kind == 'assign' and not s.place.proj and s.rvalue.kind == 'use' and s.rvalue.ops[0].place is not None:
                pl = s.rvalue.ops[0].place
                if pl.proj and pl.proj[-1][0] == 'field' and pl.proj[-1][2] and is_guard_ty(pl.proj[-1][2]) and fn.name.count('{closure#'):
                    roots.append(s.place.local)
    return sorted(set(roots))


class GuardMonitor(P.Monitor):
    """state: 0 = guard not yet checked, 1 = checked"""
    name = 'guard-checked-before-use'

    def __init__(self, prog: P.Program, aliases: Set[int], checking: Set[str]):
        self.prog = prog
        self.al = aliases
        self.checking = checking
        self.why = {}

    def init(self, fn):
        return 0

    def _mentions(self, ops) -> bool:
        return any(o.place is not None and o.place.local in self.al for o in ops)

    def step(self, fn, block, edge, st):
        if st == 1:
            return 1
        # statements: storing the guard into an aggregate that is not a reference wrapper is a use
        for s in block.stmts:
            if s.kind == 'assign' and s.rvalue.kind == 'aggregate':
                ops = [o for _, o in (s.rvalue.extra or [])]
                if self._mentions(ops):
                    ty = s.rvalue.ty or ''
                    if s.rvalue.op == 'closure':
                        # capturing the guard is fine iff the closure body itself only hands it to checking callees
                        cl = closure_fn(self.prog, fn, ty)
                        if cl is not None and cl.name in self.checking:
                            continue
                        self.why[block.idx] = 'guard captured by closure `%s`, whose body uses it unchecked' % ty
                        return P.BAD
                    if not re.search(r'\b(GuardRef|HashMapRef|HashSetRef)\b', ty):
                        self.why[block.idx] = 'guard stored into `%s`' % ty
                        return P.BAD
        t = block.term
        if t.kind == 'call':
            name = P.callee_name(t)
            passes_guard = self._mentions(t.args)
            if name.endswith('HashMap::check_guard') and passes_guard:
                return 1 if edge.kind == 'ret' else st
            if passes_guard:
                targets = self.prog.resolve(name, len(t.args)) if t.callee_op is None else []
                ok = bool(targets) and all(f.name in self.checking for f in targets)
                if not ok:
                    self.why[block.idx] = 'guard handed to `%s`, which does not check it' % name
                    return P.BAD
            elif P.is_shared_write(name) or P.is_retire(name):
                self.why[block.idx] = 'shared state written by `%s` before the guard was checked' % name
                return P.BAD
        return st


class CheckGuardBody(P.Monitor):
    """state 0: before guard.collector(); 1: took the Some arm; 2: compared; 3: compared and the collectors differ.  BAD: a normal RETURN in state 1 or 3 (a call on the way that can return normally - e.g. a helper that panics only sometimes - does not help)"""
    name = 'check_guard-body'

    def __init__(self, fn):
        # the local that receives guard.collector() and the locals holding its discriminant
        self.res = None
        for b in fn.blocks.values():
            t = b.term
            if t.kind == 'call' and P.callee_name(t).endswith('Guard::collector') and t.place is not None:
                self.res = t.place.local
        # places that hold the result: the local itself, copies of it, and fields of tuples built from it
        # (`if let (Some(c), Some(x)) = (guard.collector(), ..)`)
        holds = {(self.res, ())}
        changed = True
        while changed:
            changed = False
            for b in fn.blocks.values():
                for s in b.stmts:
                    if s.kind != 'assign' or s.place.proj:
                        continue
                    rv = s.rvalue
                    if rv.kind == 'use' and rv.ops and rv.ops[0].place is not None and (rv.ops[0].place.local, tuple(x[:2] for x in rv.ops[0].place.proj)) in holds:
                        new = (s.place.local, ())
                    elif rv.kind == 'aggregate':
                        new = None
                        for i, (_fn, o) in enumerate(rv.extra or []):
                            if o.place is not None and (o.place.local, tuple(x[:2] for x in o.place.proj)) in holds:
                                new = (s.place.local, (('field', i),))
                    else:
                        new = None
                    if new is not None and new not in holds:
                        holds.add(new)
                        changed = True
        # locals that hold the result of Collector::ptr_eq (True = as returned, False = negated)
        self.eq_pol = {}
        for b in fn.blocks.values():
            t = b.term
            if t.kind == 'call' and P.callee_name(t).endswith('Collector::ptr_eq') and t.place is not None and not t.place.proj:
                self.eq_pol[t.place.local] = True
        changed = True
        while changed:
            changed = False
            for b in fn.blocks.values():
                for s in b.stmts:
                    if s.kind != 'assign' or s.place.proj or s.place.local in self.eq_pol:
                        continue
                    rv = s.rvalue
                    src = rv.ops[0].place if rv.ops and rv.ops[0].place is not None else None
                    if src is None or src.proj or src.local not in self.eq_pol:
                        continue
                    if rv.kind == 'use':
                        self.eq_pol[s.place.local] = self.eq_pol[src.local]
                        changed = True
                    elif rv.kind == 'unop' and (rv.op or '').lower() == 'not':
                        self.eq_pol[s.place.local] = not self.eq_pol[src.local]
                        changed = True
        self.discr = set()
        for b in fn.blocks.values():
            for s in b.stmts:
                if s.kind == 'assign' and s.rvalue.kind == 'discriminant' and not s.place.proj \
                        and (s.rvalue.place.local, tuple(x[:2] for x in s.rvalue.place.proj)) in holds:
                    self.discr.add(s.place.local)

    def init(self, fn):
        return 0

    def step(self, fn, block, edge, st):
        if edge.kind == 'unwind':
            return None
        t = block.term
        if t.kind == 'switch' and t.discr.place is not None and t.discr.place.local in self.discr:
            if (edge.kind == 'case' and edge.value == 1) or (edge.kind == 'otherwise' and 1 not in [c for c, _ in t.cases]):
                return max(st, 1)
        if t.kind == 'call' and P.callee_name(t).endswith('Collector::ptr_eq') and edge.kind == 'ret':
            return 2
        # the outcome of the comparison: the "collectors differ" edge must never reach a normal return (state 3)
        if t.kind == 'switch' and t.discr.place is not None and not t.discr.place.proj and t.discr.place.local in self.eq_pol and st in (2, 3):
            pol = self.eq_pol[t.discr.place.local]
            listed = [c for c, _ in t.cases]
            if edge.kind == 'case':
                val = edge.value
            else:
                val = 1 if 0 in listed else 0
            differ = (val == 0) if pol else (val != 0)
            return 3 if differ else st
        return st

    def at_exit(self, fn, exit_kind, st):
        if exit_kind == 'RETURN' and st in (1, 3):
            return P.BAD
        return st


def closure_fn(prog: P.Program, parent: M.Function, closure_ty: str) -> Optional[M.Function]:
    """the MIR body of the closure `{closure@file:l:c: l:c}` created in `parent` (matched through its span)"""
    m = re.match(r'\{closure@(.+?):(\d+):(\d+): (\d+):(\d+)\}', closure_ty)
    cls = prog.closures_of(parent)
    if not m:
        return cls[0] if len(cls) == 1 else None
    if len(cls) == 1:
        return cls[0]
    line = int(m.group(2))
    best = None
    for c in cls:
        for b in c.blocks.values():
            sp = b.term.span or ''
            mm = re.match(r'(.+?):(\d+):', sp)
            if mm and int(mm.group(2)) >= line and (best is None or int(mm.group(2)) - line < best[0]):
                best = (int(mm.group(2)) - line, c)
    return best[1] if best else None


# native replay ------------------------------------------------------------------

REPLAY_ARMS = {
    'map::HashMap::get': 'let _ = map.get(&1, &guard);',
    'map::HashMap::get_key_value': 'let _ = map.get_key_value(&1, &guard);',
    'map::HashMap::contains_key': 'let _ = map.contains_key(&1, &guard);',
    'map::HashMap::iter': 'let _ = map.iter(&guard).count();',
    'map::HashMap::keys': 'let _ = map.keys(&guard).count();',
    'map::HashMap::values': 'let _ = map.values(&guard).count();',
    'map::HashMap::reserve': 'map.reserve(100, &guard);',
    'map::HashMap::clear': 'map.clear(&guard);',
    'map::HashMap::insert': 'let _ = map.insert(1, 7, &guard);',
    'map::HashMap::try_insert': 'let _ = map.try_insert(1, 7, &guard);',
    'map::HashMap::compute_if_present': 'let _ = map.compute_if_present(&1, |_, v| Some(v + 1), &guard);',
    'map::HashMap::remove': 'let _ = map.remove(&1, &guard);',
    'map::HashMap::remove_entry': 'let _ = map.remove_entry(&1, &guard);',
    'map::HashMap::retain': 'map.retain(|k, _| k % 2 == 0, &guard);',
    'map::HashMap::retain_force': 'map.retain_force(|k, _| k % 2 == 0, &guard);',
    'map::HashMap::with_guard': 'let _ = map.with_guard(&guard).get(&1);',
    'set::HashSet::iter': 'let _ = set.iter(&guard).count();',
    'set::HashSet::contains': 'let _ = set.contains(&1, &guard);',
    'set::HashSet::get': 'let _ = set.get(&1, &guard);',
    'set::HashSet::is_disjoint': 'let g2 = set2.guard(); let _ = set.is_disjoint(&set2, &guard, &g2);',
    'set::HashSet::is_subset': 'let g2 = set2.guard(); let _ = set.is_subset(&set2, &guard, &g2);',
    'set::HashSet::is_superset': 'let g2 = set2.guard(); let _ = set2.is_superset(&set, &g2, &guard);',
    'set::HashSet::insert': 'let _ = set.insert(1, &guard);',
    'set::HashSet::remove': 'let _ = set.remove(&1, &guard);',
    'set::HashSet::take': 'let _ = set.take(&1, &guard);',
    'set::HashSet::retain': 'set.retain(|k| k % 2 == 0, &guard);',
    'set::HashSet::clear': 'set.clear(&guard);',
    'set::HashSet::reserve': 'set.reserve(100, &guard);',
}


# the reference wrappers: same calls through with_guard
for _k, _v in list(REPLAY_ARMS.items()):
    if _k.startswith('map::HashMap::') and _k != 'map::HashMap::with_guard':
        _m = _k.rsplit('::', 1)[1]
        _call = _v.replace(', &guard)', ')').replace('(&guard)', '()').replace('map.%s(' % _m, 'map.with_guard(&guard).%s(' % _m)
        REPLAY_ARMS['map_ref::HashMapRef::' + _m] = _call
    if _k.startswith('set::HashSet::') and _k.rsplit('::', 1)[1] not in ('is_disjoint', 'is_subset', 'is_superset'):
        _m = _k.rsplit('::', 1)[1]
        _call = _v.replace(', &guard)', ')').replace('(&guard)', '()').replace('set.%s(' % _m, 'set.with_guard(&guard).%s(' % _m)
        REPLAY_ARMS['set_ref::HashSetRef::' + _m] = _call


# equality between maps / sets and their reference wrappers goes through guarded_eq with two guards
_EQ_MAP = ['let g1 = map.guard(); let _ = map.with_guard(&g1) == map2.with_guard(&guard);',
           'let g1 = map.guard(); let _ = map2.with_guard(&guard) == map.with_guard(&g1);',
           'let _ = map == map2.with_guard(&guard);',
           'let _ = map2.with_guard(&guard) == map;']
_EQ_SET = ['let g1 = set.guard(); let _ = set.with_guard(&g1) == set2.with_guard(&guard);',
           'let g1 = set.guard(); let _ = set2.with_guard(&guard) == set.with_guard(&g1);',
           'let _ = set == set2.with_guard(&guard);',
           'let _ = set2.with_guard(&guard) == set;']
EQ_GROUPS = {'map::HashMap::guarded_eq': _EQ_MAP + _EQ_SET, 'set::HashSet::guarded_eq': _EQ_SET,
             '<map_ref::HashMapRef as PartialEq>::eq': _EQ_MAP, '<map_ref::HashMap as PartialEq>::eq': _EQ_MAP,
             '<set_ref::HashSetRef as PartialEq>::eq': _EQ_SET, '<set_ref::HashSet as PartialEq>::eq': _EQ_SET}
for _n, _codes in EQ_GROUPS.items():
    for _i, _c in enumerate(_codes):
        REPLAY_ARMS['%s@%d' % (_n, _i)] = _c


def replay_keys(name: str) -> List[str]:
    if name in REPLAY_ARMS:
        return [name]
    return [k for k in REPLAY_ARMS if k.startswith(name + '@')]


def replay_program(methods: List[str]) -> str:
    arms = '\n'.join('            %r => {{ %s }}' % (m, REPLAY_ARMS[m]) for m in methods).replace("'", '"')
    return '''
use flurry::{HashMap, HashSet};
use std::panic::{catch_unwind, AssertUnwindSafe};
fn main() {
    std::panic::set_hook(Box::new(|_| {}));
    let which: Vec<String> = std::env::args().skip(1).collect();
    for populated in [false, true] {
        for w in &which {
            let map: HashMap<u32, u32> = HashMap::new();
            let set: HashSet<u32> = HashSet::new();
            let set2: HashSet<u32> = HashSet::new();
            let map2: HashMap<u32, u32> = HashMap::new();
            if populated {
                let g = map2.guard();
                for i in 0..20u32 { map2.insert(i, i, &g); }
                let g = map.guard();
                for i in 0..20u32 { map.insert(i, i, &g); }
                let g = set.guard();
                for i in 0..20u32 { set.insert(i, &g); }
                let g = set2.guard();
                for i in 0..20u32 { set2.insert(i, &g); }
            }
            let before = (flurry::verif_inspect::dump(&map), map.len());
            let evil = seize::Collector::new();
            let guard = evil.enter();
            let r = catch_unwind(AssertUnwindSafe(|| {
                match w.as_str() {
%s
                    _ => { println!("unknown method {}", w); }
                }
            }));
            drop(guard);
            let after = (flurry::verif_inspect::dump(&map), map.len());
            println!("method={} populated={} outcome={} untouched={}", w, populated, if r.is_err() { "panicked" } else { "returned" }, before == after);
        }
    }
}
''' % arms


def run(tier: str) -> int:
    chk = C.Check('C09', tier, 'model_checking')
    prog = P.Program(C.mir_functions())
    chk.bounds = {'path_length': 'unbounded (complete for the finite CFG x monitor product)', 'call_depth': 'callee summaries computed to a fixed point over the crate call graph',
                  'native_replay': 'empty and 20-entry map/set, u32 keys'}
    chk.assumptions = [
        'rustc MIR (-Zunpretty=mir) is a faithful rendering of the source',
        'a callee outside the crate that receives the guard counts as a use (conservative)',
        'storing the guard in GuardRef/HashMapRef/HashSetRef is not a use; every method of those wrappers is checked instead',
        'check_guard itself (pointer comparison of collectors, unprotected guards pass) is trusted; its body is checked to contain the ptr_eq assertion',
    ]
    # candidate functions: anything with a guard root that belongs to the four public types (or pub(crate) helpers are summarised too)
    cands = [f for f in prog.fns.values() if not f.is_const and guard_roots(f)]
    checking: Set[str] = set()
    # least fixed point: a function is "checking" once the solver shows no unchecked use w.r.t. the current set
    results: Dict[str, Dict[int, P.PathResult]] = {}
    monitors: Dict[tuple, GuardMonitor] = {}
    changed = True
    rounds = 0
    nstates = ntrans = 0
    while changed:
        changed = False
        rounds += 1
        for f in cands:
            if f.name in checking:
                continue
            ok = True
            results[f.name] = {}
            for root in guard_roots(f):
                mon = GuardMonitor(prog, guard_aliases(f, root), checking)
                r = P.run_monitor(f, mon, label='C09 %s guard=_%d round=%d' % (f.name, root, rounds))
                results[f.name][root] = r
                monitors[(f.name, root)] = mon
                nstates += r.nodes
                ntrans += r.edges
                if not r.holds:
                    ok = False
            if ok:
                checking.add(f.name)
                changed = True
    # which functions must be checking: public methods of HashMap/HashSet with a guard param + all wrapper methods
    must = []
    for f in cands:
        n = f.name.split('#')[0]
        if re.match(r'(map::HashMap|set::HashSet)::[a-z_]+$', n) and is_public(f):
            must.append(f)
        elif re.match(r'(map_ref::HashMapRef|set_ref::HashSetRef)::[a-z_]+$', n) or re.match(r'<(map_ref|set_ref)::', n):
            must.append(f)
    # check_guard's own body: must contain the ptr_eq comparison feeding an assertion
    cg = prog.get('map::HashMap::check_guard')
    chk.encoded(cg)
    has_ptr_eq = any(P.callee_name(b.term).endswith('Collector::ptr_eq') for b in cg.blocks.values())
    has_panic = any(P.is_panic_call(b.term) for b in cg.blocks.values())
    chk.obligation('check_guard compares collectors and panics on mismatch', 'holds' if (has_ptr_eq and has_panic) else 'violated', nontrivial=False)
    # every path on which the guard HAS a collector (the Some arm of guard.collector()) must compare it before returning
    rcg = P.run_monitor(cg, CheckGuardBody(cg), label='C09 check_guard: a protected guard is always compared')
    chk.obligation('check_guard: no returning path takes the Some arm of guard.collector() without Collector::ptr_eq', 'unsat' if rcg.holds else 'sat')
    if not rcg.holds:
        p0 = native.run_program('c09', replay_program(['map::HashMap::get', 'map::HashMap::insert', 'map::HashMap::iter']), ['map::HashMap::get', 'map::HashMap::insert', 'map::HashMap::iter'])
        rows = re.findall(r'method=(\S+) populated=(\S+) outcome=(\S+)', p0.stdout)
        if any(o == 'returned' for _, _, o in rows):
            chk.violation('check_guard-skips-comparison', 'check_guard can return without comparing a protected guard\'s collector with the map\'s:\n%s\nnative replay with a foreign guard: %s' % (P.describe_path(cg, rcg.path), rows),
                          replay_program(['map::HashMap::get']), 'check_guard_body.rs')
        else:
            chk.inconclusive.append('check_guard has a returning path without ptr_eq for a protected guard, but natively every probed call with a foreign guard panicked: %s' % rows)
    failing = []
    for f in must:
        chk.encoded(f)
        for root, r in results.get(f.name, {}).items():
            chk.obligation('%s: guard _%d checked before first use' % (f.name, root), 'unsat' if r.holds else 'sat',
                           product_states=r.nodes, product_edges=r.edges)
            if not r.holds:
                failing.append((f, root, r))
            else:
                chk.sample({'function': f.name, 'guard_local': root, 'verdict': 'unsat: no path reaches a guard use / shared write unchecked'})
    chk.coverage['states'] = nstates
    chk.coverage['transitions'] = ntrans
    chk.coverage['exhaustive'] = True
    chk.coverage['functions_with_guard'] = len(cands)
    chk.coverage['functions_required_to_check'] = [f.name for f in must]
    chk.coverage['fixed_point_rounds'] = rounds
    if not (has_ptr_eq and has_panic):
        chk.violation('check_guard-body', 'check_guard no longer compares the guard\'s collector with the map\'s and panics on mismatch',
                      '\n'.join(b.term.text for b in cg.blocks.values()))
    if failing:
        names = sorted({f.name.split('#')[0] for f, _, _ in failing})
        replayable = sorted({k for n in names for k in replay_keys(n)})
        outcome: Dict[str, List[str]] = {}
        if replayable:
            for release in (False, True):
                p = native.run_program('c09', replay_program(replayable), replayable, release=release)
                if p.returncode != 0:
                    chk.inconclusive.append('native replay failed to build/run: ' + p.stderr[-1500:])
                    break
                for line in p.stdout.split('\n'):
                    m = re.match(r'method=(\S+) populated=(\S+) outcome=(\S+) untouched=(\S+)', line)
                    if m:
                        outcome.setdefault(m.group(1), []).append('%s:%s:%s:%s' % ('release' if release else 'dev', m.group(2), m.group(3), m.group(4)))
            chk.coverage['traces_validated_against_impl'] = len(outcome)
        for f, root, r in failing:
            n = f.name.split('#')[0]
            mon = monitors[(f.name, root)]
            last = r.path[-1][0][0] if r.path else None
            why = mon.why.get(last, '')
            desc = '%s uses its guard (local _%d) before check_guard: %s\npath:\n%s' % (n, root, why, P.describe_path(f, r.path))
            keys = replay_keys(n)
            outs = [o for k in keys for o in outcome.get(k, [])]
            if outs:
                if any(':returned:' in o for o in outs):
                    chk.violation('unchecked-guard:' + n, desc + '\nnative replay with a foreign collector\'s guard: ' + ', '.join(outs),
                                  replay_program(keys), replay_name=re.sub(r'[^A-Za-z0-9]+', '_', n) + '.rs')
                else:
                    chk.inconclusive.append('%s: solver found an unchecked path but the native call panicked in every configuration (%s) - encoder too coarse' % (n, outs))
            elif not keys:
                chk.inconclusive.append('%s: unchecked guard use found (%s) but no native replay template exists for this method' % (n, why))
    return chk.finish()


def is_public(fn: M.Function) -> bool:
    """read the visibility from the source text of the definition"""
    import os
    if not fn.impl_at:
        return False
    m = re.match(r'(.+?):(\d+):', fn.impl_at)
    path = os.path.join(getattr(fn, 'srcroot', C.REPO), m.group(1))
    try:
        lines = open(path).read().split('\n')
    except OSError:
        return False
    name = fn.name.split('#')[0].rsplit('::', 1)[-1]
    start = int(m.group(2)) - 1
    depth = 0
    seen_open = False
    for i in range(start, len(lines)):
        l = lines[i]
        if re.match(r'\s*(pub(\([a-z]+\))?\s+)?(unsafe\s+)?fn\s+%s\b' % re.escape(name), l):
            return bool(re.match(r'\s*pub\b', l))
        if l.startswith('}') and i > start:
            break
    return False
