"""C05 - at quiescence lookups, iteration and len() agree and the table is well formed (mode B quiescence oracle)."""
from ._seq import run_property


def run(tier: str) -> int:
    return run_property('C05', tier, 'model_checking',
                        {'operations': 'as C02 (core alphabet in quick); the quiescence oracle runs at the end of every path (thorough: after every step)',
                         'oracle': 'table length power of two, next_table null, size_ctl = 0.75*len, no forwarding marker, every node in bin hash&(len-1) (solver query on the symbolic hash), stored hash = hash of key, no key twice (solver), count = entries = len(), iteration = reference, get of every key'},
                        ['quiescent points after sequential histories only'])
