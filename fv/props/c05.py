"""C05 - at quiescence lookups, iteration and len() agree and the table is well formed (mode B quiescence oracle)."""
from ._seq import run_property
from ._conc import conc_extra
from ..concheck import ConcScenario


def conc(tier):
    return [
        # a decrement overtaking the increment of the insert it undoes
        ConcScenario('empty/insert-vs-remove-same-key', hasher='identity', capacity=None, prefill=[], threads=[[('insert', 1)], [('remove', 1)]], preemptions=2),
        ConcScenario('list/insert-vs-clear', hasher='identity', capacity=2, prefill=[0], threads=[[('insert', 4)], [('clear',)]], preemptions=2),
        ConcScenario('resize/insert-vs-insert', hasher='identity', capacity=1, prefill=[0], threads=[[('insert', 1)], [('insert', 2)]], preemptions=2),
    ]


def run(tier: str) -> int:
    return run_property('C05', tier, 'model_checking',
                        {'operations': 'as C02 (core alphabet in quick); the quiescence oracle runs at the end of every path (thorough: after every step)',
                         'oracle': 'table length power of two, next_table null, size_ctl = 0.75*len, no forwarding marker, every node in bin hash&(len-1) (solver query on the symbolic hash), stored hash = hash of key, no key twice (solver), count = entries = len(), iteration = reference, get of every key'},
                        ['quiescent points after sequential histories and after the bounded two-thread histories of the interleaving section'],
                        extra=conc_extra('C05', conc, None, 'after all threads have left: count = entries = len(), placement, no marker'))
