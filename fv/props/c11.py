"""C11 - every operation terminates under any fair schedule (no deadlock, no lost wakeup).

 (1) One bin lock at a time (path obligation, z3 reachability over CFG x monitor, call graph to a fixed point): no
     function acquires - itself or through any crate callee / closure - a second parking_lot lock, or reaches a blocking
     helper (transfer / help_transfer / add_count with a resize hint / try_presize / init_table, which take other bins'
     locks), while a MutexGuard of a bin is live.  Cyclic waiting between bin locks is then impossible.
     Exception by construction: the tree-bin root lock (lock_root) is taken under the bin lock; it is a different lock
     class whose protocol is checked in (2).
 (2) Interleaving exploration on the real MIR (fv/conc.py): the tree-bin reader/writer protocol (lock_root /
     contended_lock / park / unpark against TreeBin::find readers), table initialisation races, insert/remove/clear
     racing with a resize.  Every schedule within the preemption bound must let every thread finish (no state in which
     no thread can move: deadlock / lost wakeup; no schedule longer than the step bound: livelock), leave lock_state 0 and
     no lock held, and produce a linearizable history.
"""
from __future__ import annotations
import re
from typing import Dict, List, Set
from .. import common as C, mir as M, mirpath as P
from ..concheck import ConcScenario
from ._conc import run_conc, report

LOCKING = re.compile(r'(lock_api::Mutex::lock$|(^|::)Mutex::lock$)')
BLOCKERS = re.compile(r'(thread::park$|(^|::)park$|thread::yield_now$|(^|::)yield_now$|Condvar::wait|thread::sleep$)')


class HeldMonitor(P.Monitor):
    """state = number of bin locks held (0/1); BAD when a lock or a may-lock callee is reached while holding one"""
    name = 'one-lock-at-a-time'

    def __init__(self, prog: P.Program, may_lock: Set[str]):
        self.prog = prog
        self.may_lock = may_lock
        self.why = {}

    def init(self, fn):
        return 0

    def step(self, fn, block, edge, st):
        t = block.term
        if t.kind == 'call' and t.callee_op is None:
            n = P.callee_name(t)
            if LOCKING.search(n):
                if st >= 1:
                    self.why[block.idx] = 'acquires a second bin lock (`%s`) while one is held' % n
                    return P.BAD
                return 1 if edge.kind == 'ret' else st
            if P.is_lock_release(fn, t):
                return 0 if edge.kind == 'ret' else st
            if st >= 1:
                if BLOCKERS.search(n) and not fn.name.endswith('contended_lock'):
                    self.why[block.idx] = 'may block (`%s`) while a bin lock is held' % n
                    return P.BAD
                for g in self.prog.resolve(n, len(t.args)):
                    if g.name in self.may_lock:
                        self.why[block.idx] = 'calls `%s`, which may acquire another bin lock, while a bin lock is held' % g.name
                        return P.BAD
        elif t.kind == 'drop' and P.is_lock_release(fn, t):
            return 0
        return st


def may_lock_set(prog: P.Program) -> Set[str]:
    """least fixed point: functions that (transitively) acquire a bin lock"""
    direct: Dict[str, bool] = {}
    calls: Dict[str, List[str]] = {}
    for name, f in prog.fns.items():
        if f.is_const:
            continue
        d = False
        cs = []
        for b in f.blocks.values():
            t = b.term
            if t.kind == 'call' and t.callee_op is None:
                n = P.callee_name(t)
                if LOCKING.search(n):
                    d = True
                cs += [g.name for g in prog.resolve(n, len(t.args))]
        cs += [c.name for c in prog.closures_of(f)]
        direct[name] = d
        calls[name] = cs
    changed = True
    while changed:
        changed = False
        for n in direct:
            if not direct[n] and any(direct.get(c) for c in calls[n]):
                direct[n] = True
                changed = True
    return {n for n, v in direct.items() if v}


def scenarios(tier: str) -> List[ConcScenario]:
    th = tier == 'thorough'
    S = []
    tree = list(range(10))
    p = 3 if th else 2
    # tree-bin lock protocol: one restructuring writer against one / two readers of the same bin
    S.append(ConcScenario('tree/insert-vs-get', hasher='samebin', capacity=40, prefill=tree, threads=[[('insert', 10)], [('get', 3)]], preemptions=p, inv='treelock'))
    S.append(ConcScenario('tree/remove-vs-get', hasher='samebin', capacity=40, prefill=tree, threads=[[('remove', 4)], [('get', 7)]], preemptions=p))
    S.append(ConcScenario('tree/insert-vs-get-get', hasher='const', capacity=40, prefill=tree, threads=[[('insert', 11)], [('get', 2)], [('get', 8)]], preemptions=2, yield_loads=False, inv='treelock'))
    # writer preference: a reader that arrives after the writer announced itself must not take the read lock (else a stream of
    # overlapping readers starves the writer under a fair scheduler); one preemption at every access, loads included
    S.append(ConcScenario('tree/remove-vs-get-get/writer-preference', hasher='const', capacity=40, prefill=tree, threads=[[('get', 2)], [('remove', 4)], [('get', 8)]], preemptions=1, yield_loads=True, inv='treelock'))
    S.append(ConcScenario('tree/remove-vs-insert', hasher='samebin', capacity=40, prefill=tree, threads=[[('remove', 5)], [('insert', 12)]], preemptions=2, yield_loads=th))
    # table initialisation race and its losers
    S.append(ConcScenario('init/insert-vs-insert', hasher='identity', capacity=None, prefill=[], threads=[[('insert', 1)], [('insert', 2)]], preemptions=p))
    S.append(ConcScenario('init/insert-vs-get-vs-remove', hasher='identity', capacity=None, prefill=[], threads=[[('insert', 1)], [('get', 1)], [('remove', 1)]], preemptions=2, yield_loads=False))
    # operations racing with a resize of a small table (helpers, forwarding, clear restarting in the new table)
    S.append(ConcScenario('resize/insert-vs-insert', hasher='identity', capacity=1, prefill=[0], threads=[[('insert', 1)], [('insert', 2)]], preemptions=p))
    S.append(ConcScenario('resize/compute-vs-insert', hasher='identity', capacity=1, prefill=[0], threads=[[('compute_inc', 0)], [('insert', 1)]], preemptions=p))
    S.append(ConcScenario('resize/remove-vs-insert', hasher='identity', capacity=1, prefill=[0], threads=[[('remove', 0)], [('insert', 1)]], preemptions=p))
    S.append(ConcScenario('resize/insert-vs-clear', hasher='identity', capacity=1, prefill=[0], threads=[[('insert', 1), ('insert', 2)], [('clear',)]], preemptions=p))
    S.append(ConcScenario('resize/insert-vs-remove-vs-get', hasher='identity', capacity=1, prefill=[0, 1], threads=[[('insert', 2)], [('remove', 0)], [('get', 1)]], preemptions=2, yield_loads=False))
    if th:
        S.append(ConcScenario('tree/compute-none-vs-insert', hasher='samebin', capacity=40, prefill=tree[:8], threads=[[('compute_none', 1), ('compute_none', 2)], [('insert', 13)]], preemptions=2))
        S.append(ConcScenario('resize32/insert-x3', hasher='identity', capacity=20, prefill=list(range(23)), threads=[[('insert', 23)], [('insert', 24)], [('insert', 25)]], preemptions=1, ncpu=2, yield_loads=False))
    return S


def run(tier: str) -> int:
    chk = C.Check('C11', tier, 'model_checking')
    prog = P.Program(C.mir_functions())
    chk.bounds = {'(1)': 'all CFG paths of all functions (complete), call graph to a fixed point',
                  '(2)': '2-3 logical threads, one operation each (two for clear/insert), <= 2 (thorough 3) preemptions; every atomic access, lock, park/unpark and yield is a scheduling point (in the 3-thread scenarios of the quick tier loads are not); schedules longer than 4000 scheduling points count as livelock',
                  'tables': 'tree bin of 10 colliding keys in 64 bins; uninitialised table; 2-bin table crossing its threshold'}
    chk.assumptions = ['sequentially consistent interleaving semantics (weak-memory effects are C15\'s subject)', 'parking_lot mutexes are fair enough that a released lock can be taken by a waiter; park/unpark have token semantics',
                       'fairness = every enabled thread is eventually scheduled: a spin (yield_now / spin_loop) hands the processor to another enabled thread for free',
                       'a schedule-dependent counterexample is replayed in the interpreter (deterministic decision prefix), not natively: forcing a native schedule would need instrumentation of every atomic access']
    # ---- (1)
    ml = may_lock_set(prog)
    nstates = ntrans = 0
    failing = []
    for name, f in prog.fns.items():
        if f.is_const:
            continue
        has_lock = any(b.term.kind == 'call' and LOCKING.search(P.callee_name(b.term)) for b in f.blocks.values())
        if not has_lock:
            continue
        chk.encoded(f)
        mon = HeldMonitor(prog, ml)
        r = P.run_monitor(f, mon, label='C11 one-lock ' + name)
        nstates += r.nodes
        ntrans += r.edges
        chk.obligation('(1) %s: no second lock / blocking helper is reachable while a bin lock is held' % name, 'unsat' if r.holds else 'sat', product_states=r.nodes)
        if not r.holds:
            failing.append((f, mon, r))
    chk.coverage['functions_that_may_lock'] = sorted(ml)
    chk.coverage['states'] = nstates
    chk.coverage['transitions'] = ntrans
    for f, mon, r in failing:
        last = r.path[-1][0][0] if r.path else None
        why = mon.why.get(last, '')
        chk.violation('lock-order:' + f.name, '%s: %s\npath:\n%s\n(a thread that holds bin A and waits for bin B while another holds B and waits for A never terminates; the path is the static witness, the deadlock itself needs two threads)' % (
            f.name, why, P.describe_path(f, r.path)), P.describe_path(f, r.path), 'lock_order_%s.txt' % re.sub(r'[^A-Za-z0-9]+', '_', f.name))
    # ---- observation (NOT part of the verdict; C11 quantifies over interleavings, i.e. sequentially consistent executions):
    # the park/unpark handshake of the tree-bin lock as a store-buffering litmus under RC11.  Writer: swap(waiter) ; load(lock_state).
    # Last reader: fetch_add(lock_state) ; load(waiter).  The lost wake-up is the outcome "reader sees waiter == null AND writer
    # reads the stale lock_state"; it is forbidden iff all four accesses are SeqCst (one total order S over them).
    try:
        import z3
        from .c15 import ordering_of
        ords = {}
        g = prog.get('node::TreeBin::contended_lock')
        for b in g.blocks.values():
            t = b.term
            if t.kind == 'call':
                n = P.callee_name(t)
                os_ = [ordering_of(g, a) for a in t.args if 'Ordering' in g.locals.get(a.place.local if a.place else -1, '')]
                if re.search(r'atomic::Atomic(I64|<i64>)?::load$', n) and os_:
                    ords['writer re-reads lock_state'] = os_[0]
                if n.endswith('reclaim::Atomic::swap') and os_ and 'writer publishes its handle (swap waiter)' not in ords:
                    ords['writer publishes its handle (swap waiter)'] = os_[0]
        g = prog.get('node::TreeBin::find')
        for b in g.blocks.values():
            t = b.term
            if t.kind == 'call':
                n = P.callee_name(t)
                os_ = [ordering_of(g, a) for a in t.args if 'Ordering' in g.locals.get(a.place.local if a.place else -1, '')]
                if re.search(r'::fetch_(add|sub)$', n) and os_:
                    ords['last reader leaves (fetch_add lock_state)'] = os_[0]
        ords['last reader loads waiter (Guard::protect)'] = 'SeqCst'
        if len(ords) == 4:
            ev = list(ords)
            pos = {e: z3.Int('S_%d' % i) for i, e in enumerate(ev)}
            sc = {e: ords[e] == 'SeqCst' for e in ev}
            sol = z3.Solver()
            sol.add(z3.Distinct(*pos.values()))
            a, b_, c, d = 'writer publishes its handle (swap waiter)', 'writer re-reads lock_state', 'last reader leaves (fetch_add lock_state)', 'last reader loads waiter (Guard::protect)'
            for x, y in ((a, b_), (b_, c), (c, d), (d, a)):       # sb, rb, sb, rb of the bad outcome
                if sc[x] and sc[y]:
                    sol.add(pos[x] < pos[y])
            allowed = C.check(sol, 'C11 observation: park/unpark handshake litmus') == 'sat'
            chk.coverage['observation_weak_memory_handshake'] = {
                'orderings': ords, 'lost_wakeup_allowed_under_RC11': allowed,
                'note': 'not part of the verdict: C11 quantifies over interleavings (sequentially consistent); no SC execution shows it, x86 and ARMv8 ldar cannot, an RCpc acquire (ldapr) could. See DESIGN.md 9.4.'}
    except Exception as e:      # an observation must never break the check
        chk.coverage['observation_weak_memory_handshake'] = {'error': str(e)[:200]}
    # ---- (2)
    scs = scenarios(tier)
    results = run_conc(scs)
    report(chk, 'C11', results, scs, owned_kinds=None, describe='every thread finishes, lock_state 0, no lock held, history linearizable')
    from ._conc import matrix_section
    matrix_section(chk, 'C11')
    return chk.finish()
