"""C06 - crowded bins are balanced search trees (mode B: the real rotations / removals executed from MIR on tree bins
built by treeification and resize splits, symbolic keys; red-black + BST + list/tree agreement checked after every step;
key comparisons per lookup counted)."""
import math
from ._seq import run_property
from .. import common as C


def extra(chk, results, scs):
    # O(log n) lookups: comparisons (K::cmp + K::eq) per get() at quiescence, over all paths
    worst = max([r.get('cmp_max', 0) for r in results] + [0])
    nmax = max([len(s.prefill) + len(s.ops) for s in scs] + [1])
    bound = 4 * math.ceil(math.log2(nmax + 1)) + 2
    chk.coverage['lookup_comparisons_worst'] = worst
    chk.coverage['lookup_comparisons_bound'] = bound
    chk.obligation('every lookup of a stored key costs at most 4*ceil(log2(n+1))+2 = %d key comparisons (n <= %d)' % (bound, nmax), 'holds' if worst <= bound else 'violated')
    # (an excess is raised per path as a finding `tree lookup cost` - present and absent probes - and confirmed by the native
    # replay, which counts Eq/Ord calls of its key type per lookup)
    chk.coverage['lookup_comparisons_worst_absent'] = max([r.get('cmp_absent_max', 0) for r in results] + [0])


def extra2(chk, results, scs):
    extra(chk, results, scs)
    # contended writes: after a writer had to wait for a reader (WAITER set, park/unpark) the bin must return to lock_state 0,
    # otherwise every later lookup falls back to the linear list
    from ..concheck import ConcScenario
    from ._conc import run_conc, report
    tree = list(range(10))
    cs = [ConcScenario('tree/contended-insert', hasher='samebin', capacity=40, prefill=tree, threads=[[('insert', 10)], [('get', 3)]], preemptions=2),
          ConcScenario('tree/contended-remove', hasher='const', capacity=40, prefill=tree, threads=[[('remove', 4)], [('get', 7)]], preemptions=2),
          # a reader inside the tree while a node with two children is swapped with its successor
          ConcScenario('tree/remove-5-vs-get-4', hasher='const', capacity=40, prefill=tree, threads=[[('remove', 5)], [('get', 4)]], preemptions=2),
          ConcScenario('tree/remove-3-vs-get-2', hasher='const', capacity=40, prefill=tree, threads=[[('remove', 3)], [('get', 2)]], preemptions=2),
          ConcScenario('tree/remove-7-vs-get-6', hasher='samebin', capacity=40, prefill=tree, threads=[[('remove', 7)], [('get', 6)]], preemptions=2),
          ConcScenario('tree/remove-1-vs-get-0', hasher='samebin', capacity=40, prefill=tree, threads=[[('remove', 1)], [('get', 0)]], preemptions=2)]
    res = run_conc(cs)
    chk.bounds['contended'] = '1 restructuring writer against 1 reader of the same tree bin, <= 2 preemptions: tree invariants and lock_state 0 at the end'
    report(chk, 'C06', res, cs, describe='tree invariants hold and the reader/writer lock word is back to 0 after contended restructuring')


def run(tier: str) -> int:
    return run_property('C06', tier, 'model_checking',
                        {'bins': 'tree bins of 9-11 (thorough: 9-14) colliding keys in a 64-bin table, equal hashes and same-bin/different-hash; built by treeification, by inserts, and by resize splits',
                         'operations': 'every pair (thorough: triple) of insert/remove with symbolic keys over stored and absent keys; shrink to and below the untreeify threshold',
                         'oracle': 'after every step: BST order on (hash,key) via solver, root black, no red-red, equal black heights, parent/child/prev/next consistency, tree and traversal list hold the same nodes, lock_state 0, treeify only in tables >= 64'},
                        ['the tree-bin reader/writer lock is not exercised (single thread)'], extra=extra2)
