"""C16 - borrowed results cannot outlive the guard or the map (compile time).  Encoding described in fv/sigsmt.py."""
from __future__ import annotations
import itertools, re
from typing import Any, Dict, List, Optional, Tuple
import z3
from .. import common as C, sigsmt as G

BORROWCK = ('E0505', 'E0597', 'E0502', 'E0499', 'E0716', 'E0506', 'E0503', 'E0515', 'E0521', 'E0382')

PRELUDE = r'''#![allow(unused, dead_code, clippy::all)]
use flurry::{HashMap, HashSet};
fn touch<T>(_: &T) {}
'''

RECV = {'HashMap': 'map', 'HashSet': 'set', 'HashMapRef': 'mref', 'HashSetRef': 'sref', 'Iter': 'it', 'Keys': 'it', 'Values': 'it'}


def lifetimes_in(t, acc: List[str], elide: Optional[str] = None):
    """all lifetimes mentioned in a type (in order); elided ones are reported as `elide` if given"""
    if t is None:
        return
    if 'borrowed_ref' in t:
        b = t['borrowed_ref']
        acc.append(b['lifetime'] or elide or "'_")
        lifetimes_in(b['type'], acc, elide)
    elif 'resolved_path' in t:
        args = t['resolved_path'].get('args') or {}
        for a in args.get('angle_bracketed', {}).get('args', []):
            if 'lifetime' in a:
                acc.append(a['lifetime'] if a['lifetime'] != "'_" else (elide or "'_"))
            elif 'type' in a:
                lifetimes_in(a['type'], acc, elide)
    elif 'tuple' in t:
        for x in t['tuple']:
            lifetimes_in(x, acc, elide)
    elif 'slice' in t:
        lifetimes_in(t['slice'], acc, elide)
    elif 'impl_trait' in t:
        for b in t['impl_trait']:
            if 'outlives' in b:
                acc.append(b['outlives'])


def assoc_types(j, api: G.Api) -> Dict[str, Any]:
    out = {}
    imp = j['index'].get(api.impl_id)
    if not imp:
        return out
    for it in imp['inner']['impl']['items']:
        f = j['index'].get(str(it))
        if f and 'assoc_type' in f['inner'] and f['inner']['assoc_type'].get('type'):
            out[f['name']] = f['inner']['assoc_type']['type']
    return out


def subst_assoc(t, assoc: Dict[str, Any]):
    if t is None:
        return None
    if 'qualified_path' in t:
        q = t['qualified_path']
        if q['name'] in assoc and G.ty_str(q['self_type']) == 'Self':
            return assoc[q['name']]
        return t
    if 'resolved_path' in t:
        p = dict(t['resolved_path'])
        args = p.get('args')
        if args and 'angle_bracketed' in args:
            na = []
            for a in args['angle_bracketed']['args']:
                na.append({'type': subst_assoc(a['type'], assoc)} if 'type' in a else a)
            p['args'] = {'angle_bracketed': {'args': na, 'constraints': args['angle_bracketed'].get('constraints', [])}}
        return {'resolved_path': p}
    if 'borrowed_ref' in t:
        b = dict(t['borrowed_ref'])
        b['type'] = subst_assoc(b['type'], assoc)
        return {'borrowed_ref': b}
    if 'tuple' in t:
        return {'tuple': [subst_assoc(x, assoc) for x in t['tuple']]}
    return t


class Sys:
    """one constraint system: Boolean `live(l)` per lifetime, implications, kills, requirements"""

    def __init__(self):
        self.v: Dict[str, Any] = {}
        self.s = z3.Solver()
        self.log: List[str] = []

    def live(self, l: str):
        if l == "'static":
            return z3.BoolVal(True)
        if l not in self.v:
            self.v[l] = z3.Bool('live_' + l.replace("'", 'q_'))
        return self.v[l]

    def implies(self, a: str, b: str, why=''):
        """live(a) -> live(b)   (i.e.  a is contained in b / b outlives a)"""
        self.s.add(z3.Implies(self.live(a), self.live(b)))
        self.log.append('%s <= %s  %s' % (a, b, why))

    def kill(self, l: str, why=''):
        self.s.add(z3.Not(self.live(l)))
        self.log.append('dead(%s)  %s' % (l, why))

    def need(self, l: str, why=''):
        self.s.add(self.live(l))
        self.log.append('live(%s)  %s' % (l, why))


def self_type_of(api: G.Api):
    return api.impl_for


def encode(j, api: G.Api, event: str, variant: str) -> Optional[Sys]:
    """constraint system for `result of api used after event`.  variant: 'own' (guard from the map), 'ext' (guard from a
    shared external collector), 'pin' / 'with_guard' (how a wrapper was made)."""
    S = Sys()
    fresh = itertools.count()
    fn = api.fn
    sig = fn['sig']
    assoc = assoc_types(j, api)
    # caller-side objects
    B_MAP, B_GUARD, B_REF, GAMMA, MU, IOTA = 'b_map', 'b_guard', 'b_ref', 'gamma', 'mu', 'iota'
    if variant == 'own':
        S.implies(GAMMA, B_MAP, '(guard = map.guard())')
    if api.owner in ('HashMapRef', 'HashSetRef'):
        S.implies(MU, B_MAP, '(wrapper borrows the map)')
        if variant == 'with_guard':
            S.implies(MU, B_GUARD, '(wrapper = map.with_guard(&guard))')
            S.implies(GAMMA, B_MAP)
    if api.owner in G.ITER_TYPES:
        S.implies(IOTA, B_MAP, '(it = map.iter(&guard))')
        S.implies(IOTA, B_GUARD)
        S.implies(GAMMA, B_MAP)
    if event in ('drop_guard', 'refresh_guard'):
        S.kill(B_GUARD, event)
    elif event == 'drop_map':
        S.kill(B_MAP, event)
    elif event == 'drop_ref':
        S.kill(B_REF, event)
    # where-clauses / outlives
    for gens in (api.impl_generics, fn['generics']):
        for name, bs in G.collect_bounds(gens).items():
            if name.startswith("'"):
                for b in bs:
                    if b.startswith("'"):
                        S.implies(b, name, '(%s: %s)' % (name, b))      # name: b  => b <= name
    # impl-header lifetimes of the self type:  HashMapRef<'_, ..>  /  &'g HashMapRef<'_, ..>  /  Iter<'g, K, V>
    st = api.impl_for
    self_lts: List[str] = []
    impl_elided = "'impl%d" % next(fresh)
    lifetimes_in(st, self_lts, impl_elided)
    owner_param = None
    if api.owner in ('HashMapRef', 'HashSetRef'):
        base = st['borrowed_ref']['type'] if 'borrowed_ref' in st else st
        l2: List[str] = []
        lifetimes_in(base, l2, impl_elided)
        owner_param = l2[0] if l2 else None
        if owner_param:
            S.implies(owner_param, MU, '(wrapper lifetime argument, covariant)')
    if api.owner in G.ITER_TYPES:
        l2 = []
        lifetimes_in(st, l2, impl_elided)
        owner_param = l2[0] if l2 else None
        if owner_param:
            S.implies(owner_param, IOTA, '(iterator lifetime argument, covariant)')
    self_ref_lt = None
    in_lts: List[str] = []
    for nm, t in sig['inputs']:
        el = "'in%d" % next(fresh)
        if nm == 'self':
            tt = t
            if 'generic' in t and t['generic'] == 'Self':
                tt = st          # by-value self of type Self
            if 'borrowed_ref' in tt:
                L = tt['borrowed_ref']['lifetime'] or el
                self_ref_lt = L
                in_lts.append(L)
                obj = {'HashMap': B_MAP, 'HashSet': B_MAP, 'HashMapRef': B_REF, 'HashSetRef': B_REF}.get(api.owner)
                if obj:
                    S.implies(L, obj, '(&self borrows the receiver)')
                if owner_param:
                    S.implies(L, owner_param, '(well-formed &self)')
            continue
        ts = G.ty_str(t)
        if 'Guard<' in ts and 'borrowed_ref' in t:
            L = t['borrowed_ref']['lifetime'] or el
            in_lts.append(L)
            S.implies(L, B_GUARD, '(&guard borrows the guard)')
            inner: List[str] = []
            lifetimes_in(t['borrowed_ref']['type'], inner, "'g_in%d" % next(fresh))
            for c in inner:
                S.implies(c, GAMMA, '(Guard<%s> covariant in the collector borrow)' % c)
                S.implies(L, c, '(well-formed &Guard)')
                in_lts.append(c)
        else:
            ls: List[str] = []
            lifetimes_in(t, ls, el)
            in_lts.extend(ls)   # independent locals that stay alive: no constraints ...
            if event == 'drop_key' and 'borrowed_ref' in t and 'generic' in t['borrowed_ref']['type']:
                # ... except in the drop_key scenario: the lookup key's borrow ends before the result is used
                L = t['borrowed_ref']['lifetime'] or el
                S.implies(L, 'b_key', '(&key borrows the lookup key)')
                S.kill('b_key', 'drop_key')
    # output
    out = subst_assoc(sig.get('output'), assoc)
    out_elide = self_ref_lt or (in_lts[0] if len(set(in_lts)) == 1 else None) or "'out_unbound"
    olts: List[str] = []
    lifetimes_in(out, olts, out_elide)
    if not olts:
        return None
    for l in olts:
        S.need(l, '(the result is used after the event)')
    return S


def arg_for(api: G.Api, nm: str, t, gi: List[int]) -> Optional[str]:
    ts = G.ty_str(t)
    names = G.owner_params(api)
    if 'Guard<' in ts:
        gi[0] += 1
        return '&guard' if gi[0] == 1 else '&guard%d' % gi[0]
    if 'generic' in t:
        g = t['generic']
        if g in names:
            return 'String::from("x")'
        # closure generics
        b = G.collect_bounds(api.fn['generics']).get(g, [])
        for x in b:
            if x.startswith('FnOnce(') or x.startswith('FnMut(') or x.startswith('Fn('):
                nargs = len(G.split_args(x))
                ret = x.split('->')[-1].strip() if '->' in x else ''
                params = ', '.join(['_'] * nargs)
                if ret.startswith('Option<'):
                    return '|%s| Some(String::from("n"))' % params
                if ret == 'bool':
                    return '|%s| true' % params
                return '|%s| Default::default()' % params
        return None
    if 'borrowed_ref' in t:
        inner = t['borrowed_ref']['type']
        its = G.ty_str(inner)
        if its.startswith('HashSet<') or its.startswith('crate::HashSet<'):
            return '&set2'
        if its.startswith('HashMap<'):
            return '&map2'
        if 'generic' in inner:
            return '&key'
        return None
    if ts == 'usize':
        return '1'
    return None


def probe_for(api: G.Api, event: str, variant: str, has_with_collector: bool) -> Optional[str]:
    sig = api.fn['sig']
    recv = RECV.get(api.owner)
    if recv is None:
        return None
    args = []
    gi = [0]
    has_self = False
    for nm, t in sig['inputs']:
        if nm == 'self':
            has_self = True
            continue
        a = arg_for(api, nm, t, gi)
        if a is None:
            return None
        args.append(a)
    if not has_self:
        return None
    is_set = api.owner in ('HashSet', 'HashSetRef')
    coll = 'HashSet<String>' if is_set else 'HashMap<String, String>'
    base = 'set' if is_set else 'map'
    lines = []
    if variant == 'ext':
        if not has_with_collector or is_set:
            return None
        lines.append('let c = seize::Collector::new();')
        lines.append('let %s: %s = <%s>::new().with_collector(c.clone());' % (base, coll, coll))
        lines.append('let mut guard = c.enter();')
    else:
        lines.append('let %s: %s = <%s>::new();' % (base, coll, coll))
        lines.append('let mut guard = %s.guard();' % base)
    lines.append('let set2: HashSet<String> = HashSet::new(); let guard2 = set2.guard(); let map2: HashMap<String, String> = HashMap::new();')
    lines.append('let key = String::from("k");')
    if api.owner in ('HashMapRef', 'HashSetRef'):
        lines.append('let %s = %s.%s;' % (recv, base, 'pin()' if variant == 'pin' else 'with_guard(&guard)'))
    if api.owner in G.ITER_TYPES:
        ctor = {'Iter': 'iter', 'Keys': 'keys', 'Values': 'values'}[api.owner]
        if is_set:
            ctor = 'iter'
        lines.append('let mut it = map.%s(&guard);' % ctor)
    if api.trait == 'Index':
        call = '&%s[%s]' % (recv, args[0])
    elif api.trait == 'IntoIterator':
        call = '(&%s).into_iter()' % recv
    else:
        call = '%s.%s(%s)' % (recv, api.name, ', '.join(args))
    lines.append('let r = %s;' % call)
    if event == 'drop_key':
        if '&key' not in args:
            return None
        # the probe key lives in an inner block that ends before the result is used
        lines[-1] = 'let r = { let key = String::from("k"); %s };' % call
        lines.append('touch(&r);')
        return '\n'.join(lines)
    ev = {'drop_guard': 'drop(guard);', 'refresh_guard': 'guard.refresh();', 'drop_map': 'drop(%s);' % base, 'drop_ref': 'drop(%s);' % recv, 'none': ''}[event]
    lines.append(ev)
    lines.append('touch(&r);')
    return '\n'.join(lines)


def scenarios(api: G.Api) -> List[Tuple[str, str]]:
    has_guard = any('Guard<' in G.ty_str(t) for nm, t in api.fn['sig']['inputs'] if nm != 'self')
    out = []
    if api.owner in ('HashMap', 'HashSet'):
        if has_guard:
            out += [('drop_guard', 'own'), ('refresh_guard', 'own'), ('drop_map', 'ext')]
        out += [('drop_map', 'own')]
    elif api.owner in ('HashMapRef', 'HashSetRef'):
        out += [('drop_ref', 'pin'), ('drop_ref', 'with_guard'), ('drop_guard', 'with_guard'), ('refresh_guard', 'with_guard'), ('drop_map', 'pin')]
    else:
        out += [('drop_guard', 'own'), ('refresh_guard', 'own'), ('drop_map', 'own')]
    has_key = any(nm != 'self' and 'borrowed_ref' in t and 'generic' in t['borrowed_ref']['type'] and 'Guard<' not in G.ty_str(t) for nm, t in api.fn['sig']['inputs'])
    if has_key:
        out.append(('drop_key', 'pin' if api.owner in ('HashMapRef', 'HashSetRef') else 'own'))
    return out


POSITIVE = r'''
let ks = String::from("key"); let vs = String::from("val");
let (k, v): (&str, &str) = (&ks, &vs);           // non-'static keys and values
let map: HashMap<&str, &str> = HashMap::new();
{
    let guard = map.guard();
    map.insert(k, v, &guard); let _ = map.try_insert(k, v, &guard); let _ = map.get(k, &guard); let _ = map.get_key_value(k, &guard);
    let _ = map.contains_key(k, &guard); let _ = map.compute_if_present(k, |_, x| Some(*x), &guard); map.retain(|_, _| true, &guard);
    map.retain_force(|_, _| true, &guard); let _ = map.remove(k, &guard); let _ = map.remove_entry(k, &guard); map.reserve(1, &guard);
    for (_a, _b) in map.iter(&guard) {} for _a in map.keys(&guard) {} for _b in map.values(&guard) {} map.clear(&guard);
}
{
    let r = map.pin();
    r.insert(k, v); let _ = r.try_insert(k, v); let _ = r.get(k); let _ = r.get_key_value(k); let _ = r.contains_key(k);
    let _ = r.compute_if_present(k, |_, x| Some(*x)); r.retain(|_, _| true); r.retain_force(|_, _| true); let _ = r.remove(k); let _ = r.remove_entry(k);
    r.reserve(1); for (_a, _b) in r.iter() {} for (_a, _b) in &r {} r.clear();
}
let m2: HashMap<&str, &str> = vec![(k, v)].into_iter().collect(); let _ = m2.clone(); (&m2).extend(vec![(k, v)]); let _ = m2 == map;
let q = String::from("key"); let _ = map.pin().get(q.as_str());     // lookup key with yet another lifetime
let set: HashSet<&str> = HashSet::new();
{
    let guard = set.guard();
    set.insert(k, &guard); let _ = set.contains(k, &guard); let _ = set.get(k, &guard); let _ = set.take(k, &guard); let _ = set.remove(k, &guard);
    set.retain(|_| true, &guard); for _a in set.iter(&guard) {} set.clear(&guard);
}
{ let r = set.pin(); r.insert(k); let _ = r.contains(k); let _ = r.get(k); let _ = r.take(k); let _ = r.remove(k); r.retain(|_| true); for _a in r.iter() {} r.clear(); }
let s2: HashSet<&str> = vec![k].into_iter().collect(); let _ = s2.clone(); (&s2).extend(vec![k]);
'''


def run(tier: str) -> int:
    chk = C.Check('C16', tier, 'model_checking')
    j = C.rustdoc_json()
    apis = [a for a in G.load_api(j) if a.vis == 'public' and a.owner in G.OWNERS + G.ITER_TYPES]
    has_wc = any(a.owner == 'HashMap' and a.name == 'with_collector' for a in apis)
    chk.bounds = {'methods': 'every public method / trait method of HashMap, HashSet, HashMapRef, HashSetRef, Iter, Keys, Values whose return type mentions a lifetime',
                  'events': 'guard dropped, guard refreshed, map dropped (guard from the map and from a shared external collector), wrapper dropped',
                  'program_shape': 'borrow -> call -> event -> use (4 points); one Boolean liveness per lifetime'}
    chk.assumptions = ['all generic types are treated as covariant in their lifetime arguments (true for Guard, Iter, Keys, Values, HashMapRef, HashSetRef, TryInsertError)',
                       'rustc\'s borrow checker is the replay oracle; a program it accepts is a witness, a program it rejects is safe',
                       'unsafe code inside the crate that would make a signature lie is C03\'s side']
    control = G.ProbeSet(PRELUDE)
    probes = G.ProbeSet(PRELUDE)
    verdicts: Dict[str, str] = {}
    n_methods = 0
    # also the 'static scan
    static_bad = []
    for a in apis:
        b = G.collect_bounds(a.impl_generics)
        for kname, v in G.collect_bounds(a.fn['generics']).items():
            b.setdefault(kname, []).extend(v)
        for g, bs in b.items():
            if not g.startswith("'") and "'static" in bs and g in G.owner_params(a) + ['Q']:
                static_bad.append('%s requires %s: \'static' % (a.key, g))
    seen_keys: Dict[str, int] = {}
    for a in apis:
        out = a.fn['sig'].get('output')
        tmp: List[str] = []
        lifetimes_in(subst_assoc(out, assoc_types(j, a)), tmp, "'e")
        if not tmp:
            continue
        n_methods += 1
        seen_keys[a.key] = seen_keys.get(a.key, 0) + 1
        akey = a.key + ('#%d' % seen_keys[a.key] if seen_keys[a.key] > 1 else '')
        for event, variant in scenarios(a):
            S = encode(j, a, event, variant)
            if S is None:
                continue
            pid = '%s|%s|%s' % (akey, event, variant)
            r = C.check(S.s, 'C16 ' + pid)
            verdicts[pid] = r
            if event == 'drop_key':
                chk.obligation('%s: the result is NOT tied to the borrow of the lookup key' % akey, 'sat-expected' if r == 'sat' else 'violated', constraints=len(S.log))
            else:
                chk.obligation('%s: result cannot be used after %s (%s)' % (akey, event, variant), 'unsat' if r == 'unsat' else 'sat', constraints=len(S.log))
            if len(chk.samples) < 6:
                chk.sample({'method': akey, 'event': event, 'variant': variant, 'constraints': S.log, 'verdict': r})
            body = probe_for(a, event, variant, has_wc)
            if body is not None:
                probes.add(pid, body)
                cb = probe_for(a, 'none', variant, has_wc)
                if cb and (akey + '|' + variant) not in control.ranges:
                    control.add(akey + '|' + variant, cb)
    control.add('positive-non-static', POSITIVE)
    chk.coverage['methods_with_borrowed_result'] = n_methods
    if n_methods < 30:
        chk.inconclusive.append('only %d borrowing methods discovered - front end out of date' % n_methods)
    rc, diags, err = G.run_probe_crate('c16_control', control.text(), features=(), extra_deps='')
    catt = control.attribute(diags)
    broken_controls = {k for k, v in catt.items() if v and k not in ('positive-non-static', '<other>')}
    if catt.get('positive-non-static'):
        d = catt['positive-non-static']
        chk.violation('requires-static', 'a program with non-\'static keys/values/lookup keys no longer compiles: ' + '; '.join(x['message'][:200] for x in d[:3]) +
                      ('\nbounds found by the scan: ' + '; '.join(static_bad) if static_bad else ''), control.text(), 'c16_non_static.rs')
    elif static_bad:
        chk.inconclusive.append('a \'static bound was found in rustdoc JSON (%s) but the non-\'static program still compiles' % static_bad[:3])
    chk.obligation('no \'static bound on K, V, T, Q in any public impl/method', 'unsat' if not static_bad else 'sat')
    if catt.get('<other>'):
        chk.inconclusive.append('control crate has errors outside the probes: ' + '; '.join(x['message'][:150] for x in catt['<other>'][:3]) + err[-200:])
    rc2, diags2, err2 = G.run_probe_crate('c16_probes', probes.text(), features=(), extra_deps='')
    att = probes.attribute(diags2)
    nonborrow = [d for pid in probes.ranges for d in att[pid] if d['code'] not in BORROWCK]
    if nonborrow:
        # a type error anywhere stops borrowck for the whole crate: then "no borrow error" means nothing
        bad_pids = sorted({pid for pid in probes.ranges if any(d['code'] not in BORROWCK for d in att[pid])})
        chk.inconclusive.append('probes with non-borrowck errors (templates out of date?): %s: %s' % (bad_pids[:5], nonborrow[0]['message'][:200]))
    chk.coverage['programs_compiled'] = len(probes.ranges) + len(control.ranges)
    chk.coverage['traces_validated_against_impl'] = len(probes.ranges)
    chk.coverage['states'] = len(verdicts)
    chk.coverage['transitions'] = len(probes.ranges)
    if not chk.inconclusive:
        for pid in probes.ranges:
            akey, event, variant = pid.split('|')
            if (akey + '|' + variant) in broken_controls:
                continue
            rejected = any(d['code'] in BORROWCK for d in att[pid])
            v = verdicts.get(pid)
            if event == 'drop_key':
                if v == 'unsat' and rejected:
                    chk.violation('result-tied-to-lookup-key:' + akey, 'the signature of %s ties its result to the borrow of the lookup key: the constraint system is unsatisfiable and rustc REJECTS a program whose probe key dies before the result is used' % akey,
                                  PRELUDE + '\npub fn probe() {\n' + probe_for_pid(probes, pid) + '\n}\n', 'c16_%s.rs' % re.sub(r'[^A-Za-z0-9]+', '_', pid))
                elif (v == 'sat') != (not rejected):
                    chk.inconclusive.append('%s: solver (%s) and rustc (%s) disagree' % (pid, v, 'rejects' if rejected else 'accepts'))
                continue
            if v == 'sat' and not rejected:
                chk.violation('use-after-%s:%s' % (event, akey), 'the signature of %s does not tie its result to the %s: the constraint system is satisfiable and rustc ACCEPTS the program `call; %s; use result` (%s)' % (
                    akey, 'guard' if 'guard' in event else ('map' if 'map' in event else 'wrapper'), event, variant), PRELUDE + '\npub fn probe() {\n' + (probe_for_pid(probes, pid)) + '\n}\n',
                    'c16_%s.rs' % re.sub(r'[^A-Za-z0-9]+', '_', pid))
            elif v == 'sat' and rejected:
                chk.inconclusive.append('%s: constraint system satisfiable but rustc rejects the program - encoder too weak for this signature' % pid)
            elif v == 'unsat' and not rejected:
                chk.inconclusive.append('%s: constraint system unsatisfiable but rustc accepts the probe - encoder or probe template wrong' % pid)
    return chk.finish()


def probe_for_pid(ps: G.ProbeSet, pid: str) -> str:
    a, b = ps.ranges[pid]
    return '\n'.join(ps.lines[a + 1:b - 1])
