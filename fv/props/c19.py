"""C19 - optional bulk paths (serde, rayon).

Decided part (MIR built with --features serde,rayon):
  S1  deserialisation never panics: in `visit_map`, `visit_seq`, `deserialize` (and their closures) z3 decides whether any
      CFG path from the entry reaches a panic site of the function itself (panic!/unreachable!/assert*/unwrap/expect).
      Error returns through `?` are fine.  Witness replay: every key sequence over {0,1,2} up to length 4 (with
      repetitions) is deserialised natively through a text format (no size hint) and through a self-describing value
      (exact size hint), for maps and sets; a panic confirms.
  S2  serialisation delegates to collect_map/collect_seq over the map's own iterator on every path that returns Ok, so
      the round trip reduces to iteration/insert correctness (C02/C05); the replay also round-trips every small map.
  R1  rayon: each parallel entry point funnels into one per-item closure; z3 decides on its CFG that on every path to
      `return` the closure performs exactly one `HashMap::insert` with the item's key and value (so the per-item effect
      is that of a sequential insert: an existing key is overwritten by a supplied value).  What rayon's pool does
      with the items (real parallelism) is outside this family of technique - not claimed.
"""
from __future__ import annotations
import re
from typing import Dict, List
from .. import common as C, mir as M, mirpath as P, native


class NoPanicMonitor(P.Monitor):
    name = 'no-own-panic-site'

    def __init__(self):
        self.why = {}

    def step(self, fn, block, edge, st):
        t = block.term
        if edge.kind == 'unwind':
            # a panic raised inside a callee: only our own panic sites count here
            if t.kind == 'call' and (P.is_panic_call(t) or P.may_panic_implicit(t)):
                self.why[block.idx] = t.text.strip()[:200]
                return P.BAD
            if t.kind == 'assert':
                self.why[block.idx] = t.text.strip()[:200]
                return P.BAD
            return None
        if t.kind == 'call' and P.is_panic_call(t):
            self.why[block.idx] = t.text.strip()[:200]
            return P.BAD
        return st


class MustCallMonitor(P.Monitor):
    """BAD if RETURN is reached without having passed a call whose callee matches `pattern` (state 0 -> 1)."""

    def __init__(self, pattern: str, name='must-call'):
        self.re = re.compile(pattern)
        self.name = name

    def step(self, fn, block, edge, st):
        if edge.kind == 'unwind':
            return None
        t = block.term
        if t.kind == 'call' and self.re.search(P.callee_name(t)) and edge.kind == 'ret':
            return min(st + 1, 2)
        return st

    def at_exit(self, fn, exit_kind, st):
        if exit_kind == 'RETURN' and st != 1:
            return P.BAD
        return st


REPLAY = r'''
use flurry::{HashMap, HashSet};
use std::panic::{catch_unwind, AssertUnwindSafe};
fn seqs(alpha: u8, maxlen: usize) -> Vec<Vec<u8>> {
    let mut out = vec![vec![]];
    let mut cur = vec![vec![]];
    for _ in 0..maxlen {
        let mut nxt = Vec::new();
        for s in &cur { for a in 0..alpha { let mut t: Vec<u8> = s.clone(); t.push(a); nxt.push(t); } }
        out.extend(nxt.iter().cloned());
        cur = nxt;
    }
    out
}
fn main() {
    std::panic::set_hook(Box::new(|_| {}));
    let mut panics = 0; let mut mismatches = 0; let mut n = 0;
    for s in seqs(3, 4) {
        n += 1;
        // maps: text form with repeated keys allowed, value i for the i-th occurrence
        let body: Vec<String> = s.iter().enumerate().map(|(i, k)| format!("\"{}\":{}", k, i)).collect();
        let text = format!("{{{}}}", body.join(","));
        let expect: std::collections::BTreeMap<String, usize> = s.iter().enumerate().map(|(i, k)| (k.to_string(), i)).collect();
        let r = catch_unwind(AssertUnwindSafe(|| serde_json::from_str::<HashMap<String, usize>>(&text)));
        match r {
            Err(_) => { panics += 1; println!("PANIC map from_str {}", text); }
            Ok(Ok(m)) => {
                let got: std::collections::BTreeMap<String, usize> = m.pin().iter().map(|(k, v)| (k.clone(), *v)).collect();
                if got.keys().collect::<Vec<_>>() != expect.keys().collect::<Vec<_>>() { mismatches += 1; println!("MISMATCH map keys {} -> {:?}", text, got); }
                // round trip
                let again: HashMap<String, usize> = serde_json::from_str(&serde_json::to_string(&m).unwrap()).unwrap();
                if again != m { mismatches += 1; println!("MISMATCH roundtrip {}", text); }
            }
            Ok(Err(_)) => {}
        }
        // through a self-describing value (exact size hints); serde_json::Value maps cannot repeat keys, sequences can
        let arr = serde_json::Value::Array(s.iter().map(|k| serde_json::Value::from(*k)).collect());
        let r = catch_unwind(AssertUnwindSafe(|| serde_json::from_value::<HashSet<u8>>(arr.clone())));
        match r {
            Err(_) => { panics += 1; println!("PANIC set from_value {:?}", s); }
            Ok(Ok(set)) => {
                let got: std::collections::BTreeSet<u8> = set.pin().iter().cloned().collect();
                let want: std::collections::BTreeSet<u8> = s.iter().cloned().collect();
                if got != want { mismatches += 1; println!("MISMATCH set {:?} -> {:?}", s, got); }
                let again: HashSet<u8> = serde_json::from_str(&serde_json::to_string(&set).unwrap()).unwrap();
                if again != set { mismatches += 1; println!("MISMATCH set roundtrip {:?}", s); }
            }
            Ok(Err(_)) => {}
        }
        let text = format!("[{}]", s.iter().map(|k| k.to_string()).collect::<Vec<_>>().join(","));
        if catch_unwind(AssertUnwindSafe(|| serde_json::from_str::<HashSet<u8>>(&text))).is_err() { panics += 1; println!("PANIC set from_str {}", text); }
        // map through a value with exact size hint (distinct keys only)
        let mut obj = serde_json::Map::new();
        for (i, k) in s.iter().enumerate() { obj.insert(k.to_string(), serde_json::Value::from(i)); }
        if catch_unwind(AssertUnwindSafe(|| serde_json::from_value::<HashMap<String, usize>>(serde_json::Value::Object(obj.clone())))).is_err() { panics += 1; println!("PANIC map from_value {:?}", s); }
    }
    println!("inputs={} panics={} mismatches={}", n, panics, mismatches);
}
'''

RAYON_REPLAY = r'''
use flurry::HashMap;
use rayon::iter::{IntoParallelIterator, ParallelExtend, FromParallelIterator};
fn main() {
    let mut bad = 0;
    std::panic::set_hook(Box::new(|_| {}));
    for threads in [1usize, 2, 4, 8] {
        let pool = rayon::ThreadPoolBuilder::new().num_threads(threads).build().unwrap();
        pool.install(|| {
            // existing keys 0..8 with stale values; items supply two values for each of keys 4..12
            let m: HashMap<u32, u32> = HashMap::new();
            for k in 0..8 { m.pin().insert(k, 1_000_000 + k); }
            let items: Vec<(u32, u32)> = (4..12).flat_map(|k| vec![(k, k * 10), (k, k * 10 + 1)]).collect();
            (&m).par_extend(items.clone().into_par_iter());
            for k in 4..12u32 {
                let v = m.pin().get(&k).cloned();
                if v != Some(k * 10) && v != Some(k * 10 + 1) { bad += 1; println!("BAD threads={} key {} -> {:?}", threads, k, v); }
            }
            if m.len() != 12 { bad += 1; println!("BAD len {}", m.len()); }
            let c: HashMap<u32, u32> = HashMap::from_par_iter(items.into_par_iter());
            if c.len() != 8 { bad += 1; println!("BAD collect len {}", c.len()); }
            // every input length 0..=12 into fresh, pre-sized, cleared and non-empty maps; must equal sequential insertion's key set
            for n in 0..=12u32 {
                let items: Vec<(u32, u32)> = (0..n).map(|i| (i % 4, i)).collect();
                for kind in 0..4 {
                    let r = std::panic::catch_unwind(std::panic::AssertUnwindSafe(|| {
                        let mut m: HashMap<u32, u32> = match kind { 1 => HashMap::with_capacity(8), _ => HashMap::new() };
                        if kind == 2 { m.pin().insert(99, 0); m.pin().clear(); }
                        if kind == 3 { m.pin().insert(2, 777); }
                        m.par_extend(items.clone());
                        let mut keys: Vec<u32> = m.pin().keys().cloned().collect();
                        keys.sort();
                        let mut want: Vec<u32> = items.iter().map(|x| x.0).collect();
                        if kind == 3 { want.push(2); }
                        want.sort(); want.dedup();
                        let v2 = m.pin().get(&2).cloned();
                        (keys, want, v2)
                    }));
                    match r {
                        Err(_) => { bad += 1; println!("BAD threads={} n={} kind={} par_extend panicked", threads, n, kind); }
                        Ok((keys, want, v2)) => {
                            if keys != want { bad += 1; println!("BAD threads={} n={} kind={} keys {:?} want {:?}", threads, n, kind, keys, want); }
                            if kind == 3 && n > 2 && v2 == Some(777) { bad += 1; println!("BAD threads={} n={} existing key kept its stale value", threads, n); }
                        }
                    }
                }
                let r = std::panic::catch_unwind(std::panic::AssertUnwindSafe(|| {
                    let s: flurry::HashSet<u32> = flurry::HashSet::from_par_iter(items.iter().map(|x| x.0).collect::<Vec<_>>());
                    s.len()
                }));
                let want = items.iter().map(|x| x.0).collect::<std::collections::BTreeSet<_>>().len();
                if r.as_ref().ok() != Some(&want) { bad += 1; println!("BAD threads={} n={} set collect {:?}", threads, n, r.ok()); }
            }
            // long inputs with pairwise distinct keys (a batching scheme that loses or repeats an item per batch shows only here)
            for n in [130u32, 257, 600, 1100, 4200] {
                let r = std::panic::catch_unwind(std::panic::AssertUnwindSafe(|| {
                    let items: Vec<(u32, u32)> = (0..n).map(|i| (i.wrapping_mul(7919).wrapping_add(13), i)).collect();
                    let mut want: Vec<u32> = items.iter().map(|x| x.0).collect();
                    want.sort(); want.dedup();
                    let mut m: HashMap<u32, u32> = HashMap::new();
                    m.par_extend(items.clone());
                    let c: HashMap<u32, u32> = HashMap::from_par_iter(items.clone().into_par_iter());
                    let s: flurry::HashSet<u32> = flurry::HashSet::from_par_iter(items.iter().map(|x| x.0).collect::<Vec<_>>());
                    let keys = |m: &HashMap<u32, u32>| { let mut k: Vec<u32> = m.pin().keys().cloned().collect(); k.sort(); k };
                    let vals_ok = |m: &HashMap<u32, u32>| items.iter().all(|(k, v)| m.pin().get(k) == Some(v));
                    (keys(&m) == want, keys(&c) == want, s.len() == want.len(), vals_ok(&m) && vals_ok(&c), want.len() - keys(&m).len().min(want.len()))
                }));
                match r {
                    Err(_) => { bad += 1; println!("BAD threads={} n={} long input: panicked", threads, n); }
                    Ok((a, b, c, d, lost)) => if !(a && b && c && d) { bad += 1; println!("BAD threads={} n={} long input: par_extend ok={} collect ok={} set ok={} values ok={} ({} keys lost by par_extend)", threads, n, a, b, c, d, lost); }
                }
            }
        });
    }
    println!("rayon_bad={}", bad);
}
'''


def run(tier: str) -> int:
    chk = C.Check('C19', tier, 'model_checking')
    prog = P.Program(C.mir_functions(('serde', 'rayon')))
    chk.bounds = {'paths': 'all CFG paths of the serde visitor / serializer / rayon per-item closure bodies (complete, no length bound)',
                  'native_replay': 'all key sequences over {0,1,2} up to length 4 incl. repetitions; text and value deserializers; rayon pools of 1,2,4 threads (replay only)'}
    chk.assumptions = [
        'panic sites considered: the function\'s own panic!/unreachable!/assert*/unwrap/expect; panics inside callees (MapAccess impls, HashMap::insert) are the callee\'s business (insert is covered by C02)',
        'rayon\'s scheduling of items (real parallelism) is NOT covered: only the per-item closure body is encoded (see not-applicable part in DESIGN.md §4 C19)',
    ]
    nstates = ntrans = 0
    failing = []
    # ---- S1
    de_fns = [f for n, f in prog.fns.items() if 'serde_impls::' in n and re.search(r'(visit_map|visit_seq|deserialize|HashMapVisitor::new|HashSetVisitor::new)', n) and not f.is_const]
    for f in de_fns:
        chk.encoded(f)
        mon = NoPanicMonitor()
        r = P.run_monitor(f, mon, label='C19 S1 ' + f.name)
        nstates += r.nodes
        ntrans += r.edges
        chk.obligation('S1 %s: no own panic site reachable' % f.name, 'unsat' if r.holds else 'sat', nontrivial=len(f.blocks) > 3)
        chk.sample({'function': f.name, 'blocks': len(f.blocks), 'verdict': 'unsat' if r.holds else 'sat'})
        if not r.holds:
            failing.append(('S1', f, mon, r))
    if len([f for f in de_fns if 'visit_' in f.name]) < 2:
        chk.inconclusive.append('visit_map / visit_seq not found in the MIR (serde feature build)')
    # ---- S2
    for n, f in prog.fns.items():
        m = re.match(r'<serde_impls::(HashMapRef|HashSetRef) as Serialize>::serialize', n)
        if m:
            chk.encoded(f)
            want = 'collect_map' if m.group(1) == 'HashMapRef' else 'collect_seq'
            r = P.run_monitor(f, MustCallMonitor(r'::%s$' % want), label='C19 S2 ' + n)
            r2 = P.run_monitor(f, MustCallMonitor(r'(HashMapRef|HashSetRef)::iter$'), label='C19 S2 iter ' + n)
            nstates += r.nodes + r2.nodes
            ntrans += r.edges + r2.edges
            chk.obligation('S2 %s: every returning path is exactly one %s over the wrapper\'s own iter()' % (n, want), 'unsat' if (r.holds and r2.holds) else 'sat')
            if not (r.holds and r2.holds):
                failing.append(('S2', f, None, r if not r.holds else r2))
        m = re.match(r'<serde_impls::(HashMap|HashSet) as Serialize>::serialize', n)
        if m:
            chk.encoded(f)
            r = P.run_monitor(f, MustCallMonitor(r'(HashMapRef|HashSetRef) as Serialize>::serialize$|Serialize>::serialize$'), label='C19 S2 ' + n)
            r2 = P.run_monitor(f, MustCallMonitor(r'::pin$'), label='C19 S2 pin ' + n)
            nstates += r.nodes + r2.nodes
            ntrans += r.edges + r2.edges
            chk.obligation('S2 %s: delegates to the pinned wrapper\'s serialize' % n, 'unsat' if (r.holds and r2.holds) else 'sat')
            if not (r.holds and r2.holds):
                failing.append(('S2', f, None, r if not r.holds else r2))
    # ---- R1
    closures = [f for n, f in prog.fns.items() if re.match(r'<rayon_impls::HashMap as ParallelExtend>::par_extend(#\d+)?::\{closure#\d+\}', n)]
    item_closures = [f for f in closures if any(ty.strip().startswith('(') for _, ty in f.params)]
    for f in closures:
        chk.encoded(f)
    rayon_fail = []
    structure_lost = False
    if not item_closures:
        structure_lost = True
    for f in item_closures:
        r = P.run_monitor(f, MustCallMonitor(r'^map::HashMap::insert$'), label='C19 R1 ' + f.name)
        other = [P.callee_name(b.term) for b in f.blocks.values() if b.term.kind == 'call' and P.callee_name(b.term).startswith('map::HashMap::') and P.callee_name(b.term) != 'map::HashMap::insert']
        nstates += r.nodes
        ntrans += r.edges
        ok = r.holds and not other
        # the key and value handed to insert are the item's (moved out of the closure's tuple argument)
        arg_ok = True
        for b in f.blocks.values():
            if P.callee_name(b.term) == 'map::HashMap::insert':
                arg_ok = arg_ok and _args_from_item(f, b.term)
        chk.obligation('R1 %s: exactly one HashMap::insert(item.0, item.1) on every returning path' % f.name, 'unsat' if (ok and arg_ok) else 'sat')
        if not (ok and arg_ok):
            rayon_fail.append((f, r, other))
    # every other parallel entry point funnels into `&HashMap::par_extend`
    for n, f in prog.fns.items():
        if 'rayon_impls::' in n and '{closure' not in n and not f.is_const and f not in item_closures:
            calls = [P.callee_name(b.term) for b in f.blocks.values() if b.term.kind == 'call']
            if any(c.endswith('for_each_init') for c in calls):
                continue
            chk.encoded(f)
            r = P.run_monitor(f, MustCallMonitor(r'ParallelExtend>::par_extend$'), label='C19 R1 funnel ' + n)
            nstates += r.nodes
            ntrans += r.edges
            extra_calls = [c for c in calls if c.startswith('map::HashMap::') and c.rsplit('::', 1)[-1] not in ('with_hasher', 'default', 'guard', 'pin', 'len', 'is_empty')]
            extra_calls += [c for c in calls if c.startswith('set::HashSet::') and c.rsplit('::', 1)[-1] not in ('with_hasher', 'default', 'guard', 'pin', 'len', 'is_empty')]
            chk.obligation('R1 %s: funnels into par_extend exactly once and touches the map in no other way' % n, 'unsat' if (r.holds and not extra_calls) else 'sat')
            if not r.holds or extra_calls:
                rayon_fail.append((f, r, extra_calls))
    chk.coverage['states'] = nstates
    chk.coverage['transitions'] = ntrans
    chk.coverage['exhaustive'] = True
    chk.coverage['not_covered'] = 'rayon work distribution / real parallelism inside the pool'
    # ---- replays
    if failing:
        p = native.run_program('c19', REPLAY, [], features=('serde',), extra_deps='serde_json = "1"\n', release=False, timeout=900)
        m = re.search(r'inputs=(\d+) panics=(\d+) mismatches=(\d+)', p.stdout)
        if not m:
            chk.inconclusive.append('serde replay failed: ' + (p.stderr[-800:] or p.stdout[-400:]))
        else:
            chk.coverage['traces_validated_against_impl'] = int(m.group(1))
            lines = [l for l in p.stdout.split('\n') if l.startswith('PANIC') or l.startswith('MISMATCH')]
            for kind, f, mon, r in failing:
                why = '; '.join(sorted(set(mon.why.values()))) if mon else 'a returning path bypasses the delegation'
                desc = '%s %s: %s\npath:\n%s' % (kind, f.name, why, P.describe_path(f, r.path))
                if int(m.group(2)) > 0 or int(m.group(3)) > 0:
                    chk.violation('serde:%s:%s' % (kind, f.name), desc + '\nnative replay: ' + ' | '.join(lines[:6]), REPLAY, 'serde_replay.rs')
                else:
                    chk.inconclusive.append('%s: solver found %s but none of the %s small inputs panicked or mismatched natively' % (f.name, why, m.group(1)))
    if structure_lost and not rayon_fail:
        rayon_fail.append((next(f for n, f in prog.fns.items() if 'rayon_impls::' in n and not f.is_const), P.PathResult(False), ['the per-item closure `|guard, (k, v)| insert(k, v, guard)` is no longer recognisable']))
    if rayon_fail:
        p = native.run_program('c19r', RAYON_REPLAY, [], features=('rayon',), extra_deps='rayon = "1"\n', release=False, timeout=900)
        m = re.search(r'rayon_bad=(\d+)', p.stdout)
        if not m:
            chk.inconclusive.append('rayon replay failed: ' + (p.stderr[-800:] or p.stdout[-400:]))
        else:
            for f, r, other in rayon_fail:
                desc = 'R1 %s: the per-item closure is not a single insert of the item (other map calls: %s)\n%s' % (f.name, other, P.describe_path(f, r.path))
                if int(m.group(1)) > 0:
                    chk.violation('rayon:' + f.name, desc + '\nnative replay: ' + ' | '.join(l for l in p.stdout.split('\n') if l.startswith('BAD'))[:600], RAYON_REPLAY, 'rayon_replay.rs')
                else:
                    chk.inconclusive.append('%s deviates from a single insert per item but the native rayon replay agreed with sequential insertion' % f.name)
    return chk.finish()


def _args_from_item(fn: M.Function, t: M.Terminator) -> bool:
    """insert(self, k, v, guard): k and v are moved from locals that were in turn moved out of the tuple parameter"""
    def origin(op, depth=0):
        if op.place is None or depth > 6:
            return None
        if op.place.proj:
            return op.place
        for b in fn.blocks.values():
            for s in b.stmts:
                if s.kind == 'assign' and not s.place.proj and s.place.local == op.place.local and s.rvalue.kind == 'use':
                    return origin(s.rvalue.ops[0], depth + 1)
        return op.place
    if len(t.args) < 3:
        return False
    k, v = origin(t.args[1]), origin(t.args[2])
    params = {p for p, _ in fn.params}
    def is_item_field(pl, idx):
        return pl is not None and pl.local in params and any(p[0] == 'field' and p[1] == idx for p in pl.proj)
    return is_item_field(k, 0) and is_item_field(v, 1)
