"""Shared driver of the mode-B (concrete-heap symbolic interpreter) properties."""
from __future__ import annotations
import re
from typing import Dict, List, Optional
from .. import common as C, campaign as K, native
from ..seqcheck import Scenario, Finding

MEMORY_KINDS = ('use-after-free', 'double-free', 'retire-freed', 'double-retire', 'retire-null', 'dropped-under-guard', 'null-deref', 'leak', 'double-drop')


def concrete_hash(hasher: str, k: int, model: Dict[str, int]) -> int:
    if hasher == 'const':
        return 5
    if hasher == 'identity':
        return k
    if hasher == 'samebin':
        return 1 + (k << 20)
    if hasher == 'twohash':
        return 1 + ((k & 1) << 6)
    if hasher == 'mixed':
        return 1 + ((k & 3) << 20)
    if hasher == 'split':
        return 1 + (k << 6)
    if hasher == 'highbits':
        return k << 56
    return model.get('h(%d)' % k, 0)


def replay_args(sc: Scenario, f: Finding) -> List[str]:
    m = f.model
    keys = set(sc.prefill) | set(range(sc.universe))
    ops = []
    for op in sc.ops:
        name = op[0]

        def val(kv):
            if isinstance(kv, str):
                return kv
            k = kv[1] if isinstance(kv, tuple) else m.get('k%d' % kv, 0)
            keys.add(k)
            return str(k)
        if len(op) > 2 or name == 'extend':
            ops.append('%s:%s' % (name, '+'.join(val(x) for x in op[1:])))
        else:
            ops.append('%s:%s' % (name, val(op[1]) if len(op) > 1 else '0'))
    keep_names = sorted((n for n in m if n.startswith('keep_')), key=lambda n: (int(re.search(r'keep_s(\d+)_', n).group(1)), int(n.rsplit('_', 1)[1])))
    keep = [str(m[n]) for n in keep_names]
    keep += ['1' if sc.retain_rest else '0'] * 40
    extra = []
    if sc.bulk is not None:
        ks = [m.get('k%d' % i, 0) for i in range(sc.bulk[1])]
        keys |= set(ks)
        extra = ['collect=%d:%s' % (sc.bulk[2], ','.join(str(k) for k in ks))]
    return extra + ['cap=%s' % ('none' if sc.capacity is None else sc.capacity), 'facade=%s' % sc.facade,
            'hash=' + ','.join('%d:%d' % (k, concrete_hash(sc.hasher, k, m)) for k in sorted(keys | {250, 251, 252, 253}) if k < 256),
            'prefill=' + ','.join(str(k) for k in sc.prefill), 'keep=' + ','.join(keep), 'panic_at=%d' % (sc.panic_at or 0), 'ops=' + ','.join(ops)]


def confirm(chk: C.Check, prop: str, sc: Scenario, f: Finding) -> None:
    """native replay of the finding's concrete model; prints VIOLATION only if it reproduces"""
    src = open(native.os.path.join(C.VERIF, 'native', 'seq_replay.rs')).read()
    args = replay_args(sc, f)
    if f.kind == 'dropped-under-guard':
        args.append('holdrefs=1')       # lookups keep their result under one long-lived guard and re-read it at the end
    desc = 'scenario %s: %s\noperations: %s\nsolver model: %s\ntrace:\n  %s' % (f.scenario, f.what, ' '.join(args), f.model, '\n  '.join(f.trace[-12:]))
    outcomes = []
    for release in (False, True):
        try:
            p = native.run_program('seqreplay', src, args, release=release, timeout=120)
        except native.subprocess.TimeoutExpired:
            # a sequential script has nobody to wait for: a replay that does not return is blocked on a lock left held (or spins)
            chk.violation('%s:%s' % (f.kind, f.scenario.rsplit('/', 1)[0]), desc + '\nnative replay (%s) did not terminate within 120 s: an operation of a single-threaded script blocked forever' % ('release' if release else 'dev'),
                          '// args: %s\n%s' % (' '.join(args), src), 'seq_replay.rs')
            return
        out = (p.stdout or '').strip().split('\n')[-1] if p.stdout else ''
        outcomes.append(('release' if release else 'dev', p.returncode, out))
        if 'REPLAY unsupported' in out:
            chk.inconclusive.append('%s: the interpreter reports `%s`; the native replay does not implement this script (%s)' % (f.scenario, f.what[:200], out))
            return
        if p.returncode != 0 and 'REPLAY' not in out:
            # crashed (abort / segfault / panic outside catch_unwind): for memory findings that is a reproduction
            in_crate = bool(re.search(r'PANIC-AT \S*(repo-native|flurry)\S*/src/', p.stderr or ''))
            if p.returncode < 0 or p.returncode in (134, 139) or (p.returncode == 101 and in_crate):
                chk.violation('%s:%s' % (f.kind, f.scenario.rsplit('/', 1)[0]), desc + '\nnative replay (%s) terminated abnormally: rc=%s %s' % ('release' if release else 'dev', p.returncode, (p.stderr or '')[-300:]),
                              '// args: %s\n%s' % (' '.join(args), src), 'seq_replay.rs')
                return
        if 'REPLAY mismatch' in out:
            chk.violation('%s:%s' % (f.kind, f.scenario.rsplit('/', 1)[0]), desc + '\nnative replay (%s): %s' % ('release' if release else 'dev', out), '// args: %s\n%s' % (' '.join(args), src), 'seq_replay.rs')
            return
    if f.kind in MEMORY_KINDS:
        p = native.run_program('seqreplay', src, args, miri=True, timeout=900, env={'MIRIFLAGS': '-Zmiri-disable-isolation'})
        tail = (p.stderr or '')[-1200:]
        if 'Undefined Behavior' in tail or 'memory leaked' in tail or 'REPLAY mismatch' in (p.stdout or ''):
            m = re.search(r'error: (Undefined Behavior[^\n]*|memory leaked[^\n]*)', p.stderr or '')
            chk.violation('%s:%s' % (f.kind, f.scenario.rsplit('/', 1)[0]), desc + '\nMiri replay: %s' % (m.group(1) if m else (p.stdout or '')[-200:]), '// args: %s\n%s' % (' '.join(args), src), 'seq_replay.rs')
            return
        outcomes.append(('miri', p.returncode, (p.stdout or '').strip()[-80:]))
    chk.inconclusive.append('%s: the interpreter reports `%s` but the native replay did not reproduce it (%s)' % (f.scenario, f.what[:200], outcomes))


def run_property(prop: str, tier: str, level: str, bounds: Dict, assumptions: List[str], extra=None) -> int:
    chk = C.Check(prop, tier, level)
    chk.bounds = bounds
    if level == 'other':
        chk.coverage['explanation'] = ('Bounded symbolic execution of the real code on one thread: %s. This decides the sequential core and the stated necessary conditions of the '
                                       'property for ALL key/hash values within the bounds; the interleaving quantifier of the property is outside what this check decides.' % '; '.join('%s: %s' % kv for kv in bounds.items()))
    chk.assumptions = assumptions + [
        'sequential execution (one thread); atomics are plain cells, a bin lock is a held/free bit',
        'seize is modelled as a ledger: retired objects are reclaimed when the last guard of the collector is dropped (or at once for an unprotected guard)',
        'keys are tokens with a symbolic 8-bit payload over a small universe; Eq/Ord/Hash/Borrow/Clone on them are the harness models; the hash is the stated function of the key',
        'std/seize/parking_lot callees are modelled (list in coverage.modelled_callees); everything of the crate runs from its own MIR',
    ]
    scs = K.scenarios_for(prop, tier, C.SEED)
    byname = {s.name: s for s in scs}
    results = K.run_scenarios(scs)
    own, foreign = K.summarize(chk, prop, results, scs)
    nontrivial = len([r for r in results if not r.get('error') and r.get('paths', 0) > 1])
    for r in results:
        if r.get('error'):
            continue
        fs = [f for f in (r.get('findings') or []) if K.owner_of(f, prop) == prop]
        chk.obligation('scenario %s: all %d feasible paths satisfy the %s oracle' % (r['name'], r.get('paths', 0), prop), 'unsat' if not fs else 'sat', nontrivial=r.get('paths', 0) > 1)
    if extra is not None:
        extra(chk, results, scs)
    # confirm a few distinct findings natively
    seen = set()
    for f in own:
        key = (f.kind, f.scenario.rsplit('/', 1)[0], f.what[:60])
        if key in seen or len(seen) >= 4:
            continue
        seen.add(key)
        confirm(chk, prop, byname[f.scenario], f)
    chk.coverage['traces_validated_against_impl'] = len(seen)
    return chk.finish()
