"""C01 - single-key operations are linearizable under every interleaving (bounded interleaving exploration on the real MIR).

2-3 logical threads execute one or two real operations each on a shared map in the concrete-heap interpreter; every
atomic access / lock / park is a scheduling point; all schedules with at most 2 (thorough: 3) preemptions are explored.
For every schedule the recorded history (invocation step, response step, result of each call) must have a sequential
order that respects real time and reproduces every result and the final contents; additionally no use-after-free,
double free, lost wakeup, and the quiescence oracle at the end.  Bin shapes: empty bin (CAS publication), list bin,
tree bin, bins being migrated by a resize, tree bin split by a resize, tree bin being untreeified."""
from __future__ import annotations
from typing import List
from .. import common as C
from ..concheck import ConcScenario
from ._conc import run_conc, report


def scenarios(tier: str) -> List[ConcScenario]:
    th = tier == 'thorough'
    p = 3 if th else 2
    S = []
    # 2-bin table, keys 0,2,4 share bin 0; 1,3 share bin 1
    S.append(ConcScenario('list/insert-vs-remove-head', hasher='identity', capacity=2, prefill=[0, 4], threads=[[('insert', 8)], [('remove', 0)]], preemptions=p))
    S.append(ConcScenario('list/replace-vs-get', hasher='identity', capacity=2, prefill=[0], threads=[[('insert', 0)], [('get', 0)]], preemptions=p))
    S.append(ConcScenario('empty-bin/insert-vs-insert', hasher='identity', capacity=2, prefill=[0], threads=[[('insert', 1)], [('insert', 5)]], preemptions=p))
    S.append(ConcScenario('empty-bin/try_insert-same-key', hasher='identity', capacity=2, prefill=[0], threads=[[('try_insert', 1)], [('try_insert', 1)]], preemptions=p))
    S.append(ConcScenario('list/remove-vs-remove', hasher='identity', capacity=2, prefill=[0, 4], threads=[[('remove', 4)], [('remove', 4)]], preemptions=p))
    S.append(ConcScenario('list/compute-vs-insert', hasher='const', capacity=2, prefill=[0, 1], threads=[[('compute_none', 1)], [('insert', 2)]], preemptions=p))
    # racing with a resize (2 -> 4 bins)
    S.append(ConcScenario('resize/insert-vs-get', hasher='identity', capacity=1, prefill=[0], threads=[[('insert', 1)], [('get', 0)]], preemptions=p))
    S.append(ConcScenario('resize/insert-vs-remove', hasher='identity', capacity=1, prefill=[0], threads=[[('insert', 2)], [('remove', 0)]], preemptions=p))
    S.append(ConcScenario('resize/insert-vs-replace', hasher='identity', capacity=1, prefill=[0], threads=[[('insert', 1)], [('insert', 0)]], preemptions=p))
    # a replacing insert of the bin head while the bin is being copied (split by a resize: the head is before the reused run;
    # treeified: every node is copied)
    S.append(ConcScenario('resize/insert-vs-replace-copied-head', hasher='identity', capacity=2, prefill=[0, 4], threads=[[('insert', 1)], [('insert', 0)]], preemptions=p))
    S.append(ConcScenario('treeify/insert-vs-replace-head', hasher='const', capacity=40, prefill=list(range(8)), threads=[[('insert', 8)], [('insert', 0)]], preemptions=2, yield_loads=th))
    # tree bins
    tree = list(range(10))
    S.append(ConcScenario('tree/remove-vs-insert', hasher='samebin', capacity=40, prefill=tree, threads=[[('remove', 3)], [('insert', 10)]], preemptions=2, yield_loads=th))
    # the 4th removal of the smallest keys untreeifies a 10-node bin: a second writer arrives while the bin is being converted
    S.append(ConcScenario('tree/untreeify-by-compute-vs-replace', hasher='const', capacity=40, prefill=tree, setup_removes=[0, 1, 2], threads=[[('compute_none', 3)], [('insert', 5)]], preemptions=2, yield_loads=th))
    S.append(ConcScenario('tree/untreeify-by-remove-vs-new-key', hasher='const', capacity=40, prefill=tree, setup_removes=[0, 1, 2], threads=[[('remove', 3)], [('insert', 20)]], preemptions=2, yield_loads=th))
    S.append(ConcScenario('tree/untreeify-by-compute-vs-remove', hasher='samebin', capacity=40, prefill=tree, setup_removes=[0, 1, 2], threads=[[('compute_none', 3)], [('remove', 7)]], preemptions=2, yield_loads=th))
    # a reader inside the tree while a writer restructures it (rotations on insert, successor swap on removal)
    S.append(ConcScenario('tree/get-vs-rotating-inserts', hasher='const', capacity=40, prefill=tree, threads=[[('insert', 10), ('insert', 11)], [('get', 8)]], preemptions=2))
    S.append(ConcScenario('tree/get-vs-remove-parent', hasher='const', capacity=40, prefill=tree, threads=[[('remove', 5)], [('get', 4)]], preemptions=2))
    S.append(ConcScenario('tree/get-vs-remove-parent2', hasher='samebin', capacity=40, prefill=tree, threads=[[('remove', 3)], [('get', 2)]], preemptions=2))
    # the bin a resize is waiting for is untreeified by the lock holder
    S.append(ConcScenario('tree/untreeify-vs-resize', hasher='const', capacity=40, prefill=tree, setup_removes=[0, 1, 2], threads=[[('compute_none', 3)], [('reserve', 40)]], preemptions=1, yield_loads=th))
    S.append(ConcScenario('tree/split-by-resize-vs-remove', hasher='split', capacity=40, prefill=list(range(10)), threads=[[('reserve', 40)], [('remove', 3)]], preemptions=1, yield_loads=th))
    # completing the matrix (operation that takes a bin lock) x (event that replaces the bin head while it waits): the pairs not
    # covered above or by C03/C04/C05/C08/C10/C13
    S.append(ConcScenario('tree/clear-vs-insert', hasher='const', capacity=40, prefill=tree, threads=[[('clear',)], [('insert', 12)]], preemptions=(2 if th else 1), yield_loads=False))
    S.append(ConcScenario('list/remove-vs-clear', hasher='identity', capacity=2, prefill=[0, 4], threads=[[('remove', 4)], [('clear',)]], preemptions=p))
    if th:
        S.append(ConcScenario('tree/split-by-resize-vs-insert', hasher='split', capacity=40, prefill=list(range(10)), threads=[[('reserve', 40)], [('insert', 12)]], preemptions=1, yield_loads=False))
        S.append(ConcScenario('treeify/insert-vs-clear', hasher='const', capacity=40, prefill=list(range(8)), threads=[[('insert', 8)], [('clear',)]], preemptions=2, yield_loads=False))
        S.append(ConcScenario('tree/clear-vs-resize', hasher='split', capacity=40, prefill=list(range(10)), threads=[[('clear',)], [('reserve', 40)]], preemptions=1, yield_loads=False))
        S.append(ConcScenario('treeify/insert-vs-resize', hasher='const', capacity=40, prefill=list(range(8)), threads=[[('insert', 8)], [('reserve', 40)]], preemptions=1, yield_loads=False))
    if th:
        S.append(ConcScenario('list/three-threads', hasher='identity', capacity=2, prefill=[0], threads=[[('insert', 4)], [('remove', 0)], [('get', 4)]], preemptions=2))
        S.append(ConcScenario('resize/three-threads', hasher='identity', capacity=1, prefill=[0], threads=[[('insert', 1)], [('insert', 2)], [('remove', 0)]], preemptions=2, yield_loads=False))
    return S


def run(tier: str) -> int:
    chk = C.Check('C01', tier, 'model_checking')
    chk.bounds = {'threads': '2 (thorough: up to 3) logical threads, 1-2 operations each', 'preemptions': '<= 2 (thorough 3); switches at blocking points and thread exit are free',
                  'scheduling_points': 'every atomic access, bin lock acquire/release, park/unpark, yield (tree scenarios of the quick tier: loads are not scheduling points)',
                  'shapes': 'empty bin, list bin, tree bin, bin under migration (2->4 bins), tree bin split by a resize (64->128), tree bin untreeified'}
    chk.assumptions = ['sequentially consistent interleavings (memory-order effects: C15)', 'seize modelled as a ledger with per-retirement protection sets', 'keys and hashes concrete in these scenarios, values are tokens',
                       'a schedule-dependent counterexample is replayed in the interpreter (deterministic decision prefix), not natively']
    scs = scenarios(tier)
    results = run_conc(scs)
    report(chk, 'C01', results, scs, describe='history linearizable, no use-after-free/double free/lost wakeup, quiescent structure well formed')
    from ._conc import matrix_section
    matrix_section(chk, 'C01')
    return chk.finish()
