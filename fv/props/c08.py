"""C08 - compute_if_present is an atomic read-modify-write (bounded interleaving exploration on the real MIR).

compute_if_present races with compute_if_present, insert (replacement), remove and a resize on the same key, in list
bins and tree bins; all schedules with at most 2 (thorough 3) preemptions.  The remapping function must run at most once
per call; the history, in which a compute records the value instance it was given and the one it produced, must be
linearizable - a lost update (two computes given the same value instance) or a result replacing a value the function was
never given is exactly a non-linearizable history."""
from __future__ import annotations
from typing import List
from .. import common as C
from ..concheck import ConcScenario
from ._conc import run_conc, report


def scenarios(tier: str) -> List[ConcScenario]:
    th = tier == 'thorough'
    p = 3 if th else 2
    S = []
    S.append(ConcScenario('list/compute-vs-compute', hasher='identity', capacity=2, prefill=[0, 4], threads=[[('compute_inc', 4)], [('compute_inc', 4)]], preemptions=p))
    S.append(ConcScenario('list/compute-vs-replace', hasher='identity', capacity=2, prefill=[0, 4], threads=[[('compute_inc', 0)], [('insert', 0)]], preemptions=p))
    S.append(ConcScenario('list/compute-vs-remove', hasher='identity', capacity=2, prefill=[0, 4], threads=[[('compute_inc', 4)], [('remove', 4)]], preemptions=p))
    S.append(ConcScenario('list/compute-none-vs-compute', hasher='const', capacity=2, prefill=[0, 1], threads=[[('compute_none', 1)], [('compute_inc', 1)]], preemptions=p))
    S.append(ConcScenario('resize/compute-vs-insert', hasher='identity', capacity=1, prefill=[0], threads=[[('compute_inc', 0)], [('insert', 1)]], preemptions=p))
    tree = list(range(10))
    S.append(ConcScenario('tree/compute-vs-compute', hasher='samebin', capacity=40, prefill=tree, threads=[[('compute_inc', 5)], [('compute_inc', 5)]], preemptions=2, yield_loads=th))
    S.append(ConcScenario('tree/compute-vs-replace', hasher='samebin', capacity=40, prefill=tree, threads=[[('compute_inc', 5)], [('insert', 5)]], preemptions=2, yield_loads=th))
    S.append(ConcScenario('tree/compute-vs-remove-neighbour', hasher='const', capacity=40, prefill=tree, threads=[[('compute_inc', 5)], [('remove', 6)]], preemptions=2, yield_loads=th))
    S.append(ConcScenario('tree/split-by-resize-vs-compute', hasher='split', capacity=40, prefill=tree, threads=[[('reserve', 40)], [('compute_inc', 3)]], preemptions=1, yield_loads=th))
    # a list bin being turned into a tree (the treeifying insert copies the nodes) while a compute updates one of them
    S.append(ConcScenario('treeify/insert-vs-compute-head', hasher='const', capacity=40, prefill=list(range(8)), threads=[[('insert', 8)], [('compute_inc', 0)]], preemptions=2, yield_loads=th))
    S.append(ConcScenario('treeify/insert-vs-compute-mid', hasher='const', capacity=40, prefill=list(range(8)), threads=[[('insert', 8)], [('compute_inc', 5)]], preemptions=2, yield_loads=th))
    # a removing compute (closure returns None) against a writer of the same key in a tree bin / a list bin
    S.append(ConcScenario('tree/compute-none-vs-replace', hasher='const', capacity=40, prefill=tree, threads=[[('compute_none', 5)], [('insert', 5)]], preemptions=2, yield_loads=th))
    S.append(ConcScenario('list/compute-none-vs-replace', hasher='identity', capacity=2, prefill=[0, 4], threads=[[('compute_none', 4)], [('insert', 4)]], preemptions=p))
    # the tree bin is converted back to a list by a removal while a compute updates another key of the bin
    S.append(ConcScenario('tree/untreeify-by-remove-vs-compute', hasher='const', capacity=40, prefill=tree, setup_removes=[0, 1, 2], threads=[[('remove', 3)], [('compute_inc', 5)]], preemptions=2, yield_loads=th))
    S.append(ConcScenario('list/compute-vs-clear', hasher='identity', capacity=2, prefill=[0, 4], threads=[[('compute_inc', 4)], [('clear',)]], preemptions=p))
    if th:
        S.append(ConcScenario('tree/compute-vs-clear', hasher='const', capacity=40, prefill=tree, threads=[[('compute_inc', 5)], [('clear',)]], preemptions=2, yield_loads=False))
    if th:
        S.append(ConcScenario('list/three-computes', hasher='identity', capacity=2, prefill=[0], threads=[[('compute_inc', 0)], [('compute_inc', 0)], [('compute_inc', 0)]], preemptions=2))
    return S


def run(tier: str) -> int:
    chk = C.Check('C08', tier, 'model_checking')
    chk.bounds = {'threads': '2 (thorough 3) logical threads, one operation each', 'preemptions': '<= 2 (thorough 3)',
                  'shapes': 'list bin, tree bin, bin under migration, tree bin split by a resize, list bin being treeified'}
    chk.assumptions = ['sequentially consistent interleavings', 'a schedule-dependent counterexample is replayed in the interpreter, not natively']
    scs = scenarios(tier)
    results = run_conc(scs)
    report(chk, 'C08', results, scs, describe='function runs at most once, history (incl. the value instances each compute saw and produced) linearizable')
    from ._conc import matrix_section
    matrix_section(chk, 'C08')
    return chk.finish()
