"""Parser for rustc's textual MIR (`-Zunpretty=mir -Zmir-include-spans=yes`).

The output is a light AST that the path engine (mirpath), the scalar symbolic
engine (mirsym) and the concrete-heap interpreter (modeb) all consume.

Everything is regenerated from /repo's current sources on every run; nothing in
here is specific to a particular version of the functions.
"""
from __future__ import annotations
import re
from dataclasses import dataclass, field
from typing import Optional, List, Dict, Tuple, Any

# ----------------------------------------------------------------------------
# low-level scanning helpers (string-literal and bracket aware)
# ----------------------------------------------------------------------------

OPEN = {'(': ')', '[': ']', '{': '}'}
CLOSE = {')': '(', ']': '[', '}': '{'}


def _skip_string(s: str, i: int) -> int:
    """s[i] == '"'; return index just after the closing quote."""
    assert s[i] == '"'
    i += 1
    n = len(s)
    while i < n:
        c = s[i]
        if c == '\\':
            i += 2
            continue
        if c == '"':
            return i + 1
        i += 1
    return n


def _is_char_lit(s: str, i: int) -> int:
    """if a char literal like 'a' or '\\n' starts at i return its end, else -1.
    (lifetimes such as 'g or '_ are not char literals)"""
    if s[i] != "'":
        return -1
    if i + 2 < len(s) and s[i + 1] != '\\' and s[i + 2] == "'":
        return i + 3
    if i + 3 < len(s) and s[i + 1] == '\\' and s[i + 3] == "'":
        return i + 4
    return -1


def split_top(s: str, sep: str, angle: bool = True) -> List[str]:
    """split `s` at top-level occurrences of `sep` (not inside brackets, angle
    brackets or string literals)."""
    out = []
    depth = 0
    adepth = 0
    i = 0
    last = 0
    n = len(s)
    L = len(sep)
    while i < n:
        c = s[i]
        if c == '"':
            i = _skip_string(s, i)
            continue
        e = _is_char_lit(s, i)
        if e > 0:
            i = e
            continue
        if depth == 0 and adepth == 0 and s.startswith(sep, i):
            out.append(s[last:i])
            i += L
            last = i
            continue
        if c in OPEN:
            depth += 1
        elif c in CLOSE:
            depth -= 1
        elif angle and c == '<':
            adepth += 1
        elif angle and c == '>':
            if i > 0 and s[i - 1] == '-':
                pass  # '->'
            elif i > 0 and s[i - 1] == '=':
                pass  # '=>'
            elif adepth > 0:
                adepth -= 1
        i += 1
    out.append(s[last:])
    return out


def find_top(s: str, sub: str, start: int = 0, angle: bool = False, last: bool = False) -> int:
    """index of the first (or last) top-level occurrence of `sub` in s, -1 if none."""
    depth = 0
    adepth = 0
    i = 0
    n = len(s)
    res = -1
    while i < n:
        c = s[i]
        if c == '"':
            i = _skip_string(s, i)
            continue
        e = _is_char_lit(s, i)
        if e > 0:
            i = e
            continue
        if i >= start and depth == 0 and adepth == 0 and s.startswith(sub, i):
            if not last:
                return i
            res = i
        if c in OPEN:
            depth += 1
        elif c in CLOSE:
            depth -= 1
        elif angle and c == '<':
            adepth += 1
        elif angle and c == '>' and not (i > 0 and s[i - 1] in '-=') and adepth > 0:
            adepth -= 1
        i += 1
    return res


def match_close(s: str, i: int) -> int:
    """s[i] is an opening bracket; return index of the matching close."""
    depth = 0
    n = len(s)
    while i < n:
        c = s[i]
        if c == '"':
            i = _skip_string(s, i)
            continue
        e = _is_char_lit(s, i)
        if e > 0:
            i = e
            continue
        if c in OPEN:
            depth += 1
        elif c in CLOSE:
            depth -= 1
            if depth == 0:
                return i
        i += 1
    raise ValueError('unbalanced: ' + s)


def strip_comment(line: str) -> Tuple[str, Optional[str]]:
    """remove a trailing `// ...` comment (outside string literals)."""
    i = 0
    n = len(line)
    while i < n:
        c = line[i]
        if c == '"':
            i = _skip_string(line, i)
            continue
        e = _is_char_lit(line, i)
        if e > 0:
            i = e
            continue
        if c == '/' and i + 1 < n and line[i + 1] == '/':
            return line[:i].rstrip(), line[i + 2:].strip()
        i += 1
    return line.rstrip(), None


# ----------------------------------------------------------------------------
# AST
# ----------------------------------------------------------------------------

@dataclass
class Place:
    local: int
    proj: Tuple[Any, ...] = ()   # elements: ('deref',) ('field', n, ty) ('downcast', name) ('index', local) ('constindex', n, m, from_end) ('subslice', a, b, from_end)

    def __str__(self):
        s = '_%d' % self.local
        for p in self.proj:
            if p[0] == 'deref':
                s = '(*%s)' % s
            elif p[0] == 'field':
                s = '%s.%d' % (s, p[1])
            elif p[0] == 'downcast':
                s = '(%s as %s)' % (s, p[1])
            elif p[0] == 'index':
                s = '%s[_%d]' % (s, p[1])
            else:
                s = '%s[%s]' % (s, p[1:])
        return s

    def base(self):
        return self.local


@dataclass
class Operand:
    kind: str                 # 'copy' | 'move' | 'const'
    place: Optional[Place] = None
    const: Optional[str] = None    # textual constant (without the leading 'const ')

    def __str__(self):
        if self.kind == 'const':
            return 'const ' + self.const
        return '%s %s' % (self.kind, self.place)


@dataclass
class Rvalue:
    kind: str
    # 'use' (ops[0]); 'ref' (place, mut: '', 'mut'); 'rawptr'; 'binop' (op, a, b); 'unop' (op, a);
    # 'cast' (op, ty, castkind); 'discriminant' (place); 'aggregate' (agg_kind, name, variant, fields: [(fname, operand)]);
    # 'repeat' (op, count); 'len' (place); 'nullop'; 'shallowbox'; 'copyforderef'(place); 'unknown'
    ops: List[Operand] = field(default_factory=list)
    place: Optional[Place] = None
    op: Optional[str] = None
    ty: Optional[str] = None
    extra: Any = None
    text: str = ''


@dataclass
class Statement:
    kind: str            # 'assign' | 'setdiscr' | 'nop' | 'other'
    place: Optional[Place] = None
    rvalue: Optional[Rvalue] = None
    extra: Any = None
    text: str = ''
    span: Optional[str] = None


@dataclass
class Terminator:
    kind: str            # goto, switch, return, resume, unreachable, drop, call, assert, terminate
    text: str = ''
    span: Optional[str] = None
    # goto
    target: Optional[int] = None
    # switch
    discr: Optional[Operand] = None
    cases: List[Tuple[int, int]] = field(default_factory=list)
    otherwise: Optional[int] = None
    # drop / call / assert
    place: Optional[Place] = None       # drop place / call destination
    unwind: Any = None                  # int | 'continue' | 'terminate' | 'unreachable' | None
    callee: Optional[str] = None        # textual callee (raw)
    callee_op: Optional[Operand] = None  # when calling through a local (closure / fn pointer)
    args: List[Operand] = field(default_factory=list)
    cond: Optional[Operand] = None      # assert
    expected: bool = True
    msg: str = ''

    def successors(self, with_unwind=True) -> List[int]:
        out = []
        if self.kind == 'goto':
            out.append(self.target)
        elif self.kind == 'switch':
            out += [t for _, t in self.cases]
            if self.otherwise is not None:
                out.append(self.otherwise)
        elif self.kind in ('drop', 'call', 'assert'):
            if self.target is not None:
                out.append(self.target)
        if with_unwind and isinstance(self.unwind, int):
            out.append(self.unwind)
        return out


@dataclass
class Block:
    idx: int
    cleanup: bool
    stmts: List[Statement]
    term: Terminator


@dataclass
class Function:
    raw_name: str
    name: str                 # canonical name, e.g. map::HashMap::put or <map::HashMap as Drop>::drop
    params: List[Tuple[int, str]]
    ret: str
    locals: Dict[int, str]
    debug: Dict[str, Any]     # debug name -> local (int) or text
    blocks: Dict[int, Block]
    impl_at: Optional[str] = None
    span_file: Optional[str] = None
    text_hash: str = ''
    promoted: Dict[int, 'Function'] = field(default_factory=dict)
    is_const: bool = False

    def local_name(self, n: int) -> str:
        for k, v in self.debug.items():
            if v == n:
                return k
        return '_%d' % n


# ----------------------------------------------------------------------------
# expression parsing
# ----------------------------------------------------------------------------

_local_re = re.compile(r'_(\d+)$')


def parse_place(s: str) -> Place:
    s = s.strip()
    m = _local_re.match(s)
    if m:
        return Place(int(m.group(1)))
    # trailing index: P[_i] or P[N of M] etc.
    if s.endswith(']'):
        # find matching '['
        depth = 0
        i = len(s) - 1
        while i >= 0:
            c = s[i]
            if c == ']':
                depth += 1
            elif c == '[':
                depth -= 1
                if depth == 0:
                    break
            i -= 1
        base = parse_place(s[:i])
        inner = s[i + 1:-1].strip()
        m = _local_re.match(inner)
        if m:
            return Place(base.local, base.proj + (('index', int(m.group(1))),))
        m = re.match(r'(-?)(\d+) of (\d+)$', inner)
        if m:
            return Place(base.local, base.proj + (('constindex', int(m.group(2)), int(m.group(3)), m.group(1) == '-'),))
        m = re.match(r'(\d+):(-?)(\d*)$', inner)
        if m:
            return Place(base.local, base.proj + (('subslice', int(m.group(1)), int(m.group(3) or 0), m.group(2) == '-'),))
        raise ValueError('index projection: ' + s)
    if s.startswith('(') and match_close(s, 0) == len(s) - 1:
        inner = s[1:-1].strip()
        if inner.startswith('*'):
            base = parse_place(inner[1:])
            return Place(base.local, base.proj + (('deref',),))
        # (P as Variant)
        k = find_top(inner, ' as ', last=True)
        # (P.N: Type)
        c = find_top(inner, ': ')
        if c >= 0:
            head = inner[:c]
            ty = inner[c + 2:]
            d = head.rfind('.')
            base = parse_place(head[:d])
            return Place(base.local, base.proj + (('field', int(head[d + 1:]), ty),))
        if k >= 0:
            base = parse_place(inner[:k])
            return Place(base.local, base.proj + (('downcast', inner[k + 4:].strip()),))
        return parse_place(inner)
    # P.N without type (rare)
    m = re.match(r'(.*)\.(\d+)$', s)
    if m:
        base = parse_place(m.group(1))
        return Place(base.local, base.proj + (('field', int(m.group(2)), None),))
    raise ValueError('place: ' + s)


def parse_operand(s: str) -> Operand:
    s = s.strip()
    if s.startswith('no_retag '):
        s = s[len('no_retag '):]
    if s.startswith('copy '):
        return Operand('copy', parse_place(s[5:]))
    if s.startswith('move '):
        return Operand('move', parse_place(s[5:]))
    if s.startswith('const '):
        return Operand('const', const=s[6:].strip())
    # bare place (e.g. in discriminant()) or literal
    try:
        return Operand('copy', parse_place(s))
    except Exception:
        return Operand('const', const=s)


BINOPS = {'Add', 'Sub', 'Mul', 'Div', 'Rem', 'BitXor', 'BitAnd', 'BitOr', 'Shl', 'Shr', 'Eq', 'Lt', 'Le', 'Ne', 'Ge', 'Gt',
          'Offset', 'Cmp', 'AddWithOverflow', 'SubWithOverflow', 'MulWithOverflow', 'AddUnchecked', 'SubUnchecked',
          'MulUnchecked', 'ShlUnchecked', 'ShrUnchecked'}
UNOPS = {'Not', 'Neg', 'PtrMetadata'}


def parse_rvalue(s: str) -> Rvalue:
    s = s.strip()
    t = s
    if s.startswith('no_retag '):
        s = s[len('no_retag '):]
    if s.startswith('&raw const ') or s.startswith('&raw mut '):
        mut = 'mut' if s.startswith('&raw mut ') else ''
        return Rvalue('rawptr', place=parse_place(s.split(' ', 2)[2]), op=mut, text=t)
    if s.startswith('&'):
        rest = s[1:].lstrip()
        mut = ''
        if rest.startswith('mut '):
            mut = 'mut'
            rest = rest[4:]
        elif rest.startswith('fake shallow '):
            rest = rest[len('fake shallow '):]
        elif rest.startswith('fake '):
            rest = rest[len('fake '):]
        # `&'a mut`? not printed in this form
        if rest.lstrip().startswith('/*tls*/'):
            return Rvalue('unknown', text=t)        # address of a thread-local static (only inside std's thread_local! expansion)
        return Rvalue('ref', place=parse_place(rest), op=mut, text=t)
    m = re.match(r'([A-Za-z]+)\((.*)\)$', s, re.S)
    if m and m.group(1) in BINOPS:
        a, b = split_top(m.group(2), ', ')
        return Rvalue('binop', ops=[parse_operand(a), parse_operand(b)], op=m.group(1), text=t)
    if m and m.group(1) in UNOPS:
        return Rvalue('unop', ops=[parse_operand(m.group(2))], op=m.group(1), text=t)
    if m and m.group(1) == 'discriminant':
        return Rvalue('discriminant', place=parse_place(m.group(2)), text=t)
    if m and m.group(1) == 'Len':
        return Rvalue('len', place=parse_place(m.group(2)), text=t)
    if m and m.group(1) in ('SizeOf', 'AlignOf', 'OffsetOf', 'UbChecks', 'ContractChecks'):
        return Rvalue('nullop', op=m.group(1), ty=m.group(2), text=t)
    if m and m.group(1) == 'ShallowInitBox':
        a, b = split_top(m.group(2), ', ')
        return Rvalue('shallowbox', ops=[parse_operand(a)], ty=b, text=t)
    if m and m.group(1) == 'deref_copy':
        return Rvalue('use', ops=[Operand('copy', parse_place(m.group(2)))], text=t)
    if s.startswith('deref_copy '):
        return Rvalue('use', ops=[Operand('copy', parse_place(s[len('deref_copy '):]))], text=t)
    # cast:  OPERAND as TYPE (Kind)
    if s.endswith(')') and (s.startswith('copy ') or s.startswith('move ') or s.startswith('const ')):
        k = find_top(s, ' as ', last=True)
        if k >= 0:
            o = s.rfind(' (')
            kind = s[o + 2:-1]
            ty = s[k + 4:o]
            return Rvalue('cast', ops=[parse_operand(s[:k])], ty=ty.strip(), op=kind, text=t)
    if s.startswith('copy ') or s.startswith('move ') or s.startswith('const '):
        return Rvalue('use', ops=[parse_operand(s)], text=t)
    # tuple aggregate
    if s.startswith('(') and match_close(s, 0) == len(s) - 1:
        inner = s[1:-1].strip()
        if inner.endswith(','):
            inner = inner[:-1]
        parts = [p for p in split_top(inner, ', ') if p.strip()] if inner else []
        return Rvalue('aggregate', op='tuple', extra=[(str(i), parse_operand(p)) for i, p in enumerate(parts)], text=t)
    if s.startswith('[') and s.endswith(']'):
        inner = s[1:-1]
        k = find_top(inner, '; ')
        if k >= 0:
            return Rvalue('repeat', ops=[parse_operand(inner[:k])], extra=inner[k + 2:].strip(), text=t)
        parts = [p for p in split_top(inner, ', ') if p.strip()] if inner.strip() else []
        return Rvalue('aggregate', op='array', extra=[(str(i), parse_operand(p)) for i, p in enumerate(parts)], text=t)
    # closure / coroutine aggregate: {closure@src/map.rs:1422:18: 1422:32} { a: copy _1 }  (or with no fields)
    if s.startswith('{closure@') or s.startswith('{coroutine@'):
        e = match_close(s, 0)
        name = s[:e + 1]
        rest = s[e + 1:].strip()
        fields = []
        if rest.startswith('{'):
            inner = rest[1:-1].strip()
            for p in split_top(inner, ', '):
                p = p.strip()
                if not p:
                    continue
                c = p.index(': ')
                fields.append((p[:c], parse_operand(p[c + 2:])))
        return Rvalue('aggregate', op='closure', ty=name, extra=fields, text=t)
    # struct aggregate:  Path { f: op, ... }   or enum variant with named fields
    if s.endswith('}'):
        o = find_top(s, ' {', angle=True)
        if o >= 0:
            name = s[:o].strip()
            inner = s[o + 2:-1].strip()
            fields = []
            if inner:
                for p in split_top(inner, ', '):
                    p = p.strip()
                    if not p:
                        continue
                    c = p.index(': ')
                    fields.append((p[:c], parse_operand(p[c + 2:])))
            return Rvalue('aggregate', op='adt', ty=name, extra=fields, text=t)
    # tuple-struct / tuple-variant aggregate: Path(op, ...)   (NB: a *call* never appears as an rvalue)
    if s.endswith(')'):
        # find the last top-level paren group
        i = len(s) - 1
        depth = 0
        j = i
        # scan forward to find start of last depth-0 group
        pos = 0
        start = -1
        n = len(s)
        while pos < n:
            c = s[pos]
            if c == '"':
                pos = _skip_string(s, pos)
                continue
            e = _is_char_lit(s, pos)
            if e > 0:
                pos = e
                continue
            if c in OPEN:
                if depth == 0 and c == '(':
                    start = pos
                depth += 1
            elif c in CLOSE:
                depth -= 1
            pos += 1
        if start > 0:
            name = s[:start].strip()
            inner = s[start + 1:-1].strip()
            parts = [p for p in split_top(inner, ', ') if p.strip()] if inner else []
            try:
                return Rvalue('aggregate', op='adt', ty=name, extra=[(str(i), parse_operand(p)) for i, p in enumerate(parts)], text=t)
            except Exception:
                pass
    # unit-like variant / path constant:  Option::<T>::None , std::sync::atomic::Ordering::SeqCst
    if re.match(r'^[A-Za-z_<]', s) and ' ' not in s.split('<')[0]:
        return Rvalue('aggregate', op='adt', ty=s, extra=[], text=t)
    return Rvalue('unknown', text=t)


def _parse_targets(s: str):
    """parse `[return: bb1, unwind: bb2]` / `[success: bb3, unwind continue]` / `bb5` / `unwind continue`"""
    s = s.strip()
    target = None
    unwind = None
    if s.startswith('['):
        s = s[1:-1]
    for part in split_top(s, ', '):
        part = part.strip()
        m = re.match(r'(return|success): bb(\d+)$', part)
        if m:
            target = int(m.group(2))
            continue
        m = re.match(r'unwind: bb(\d+)$', part)
        if m:
            unwind = int(m.group(1))
            continue
        m = re.match(r'bb(\d+)$', part)
        if m:
            # diverging call with cleanup: `-> bb145`  (unwind target)
            unwind = int(m.group(1))
            continue
        if part.startswith('unwind '):
            w = part[7:].strip()
            unwind = 'terminate' if w.startswith('terminate') else w
            continue
        if part == 'return: unreachable' or part == '':
            continue
        raise ValueError('targets: ' + s)
    return target, unwind


def parse_terminator(s: str, span=None) -> Terminator:
    t = s
    s = s.strip()
    if s.endswith(';'):
        s = s[:-1]
    if s.startswith('goto -> '):
        return Terminator('goto', text=t, span=span, target=int(s[len('goto -> bb'):]))
    if s == 'return':
        return Terminator('return', text=t, span=span)
    if s == 'resume':
        return Terminator('resume', text=t, span=span)
    if s == 'unreachable':
        return Terminator('unreachable', text=t, span=span)
    if s.startswith('terminate('):
        return Terminator('terminate', text=t, span=span)
    if s.startswith('switchInt('):
        e = match_close(s, len('switchInt'))
        discr = parse_operand(s[len('switchInt('):e])
        rest = s[e + 1:].strip()
        assert rest.startswith('-> [')
        cases = []
        otherwise = None
        for part in split_top(rest[4:-1], ', '):
            k, v = part.split(': ')
            bb = int(v.strip()[2:])
            if k.strip() == 'otherwise':
                otherwise = bb
            else:
                cases.append((int(k.strip()), bb))
        return Terminator('switch', text=t, span=span, discr=discr, cases=cases, otherwise=otherwise)
    if s.startswith('drop('):
        e = match_close(s, 4)
        place = parse_place(s[5:e])
        rest = s[e + 1:].strip()
        assert rest.startswith('-> ')
        target, unwind = _parse_targets(rest[3:])
        return Terminator('drop', text=t, span=span, place=place, target=target, unwind=unwind)
    if s.startswith('assert('):
        e = match_close(s, 6)
        inner = s[7:e]
        parts = split_top(inner, ', ')
        c = parts[0].strip()
        expected = True
        if c.startswith('!'):
            expected = False
            c = c[1:]
        rest = s[e + 1:].strip()
        target, unwind = _parse_targets(rest[3:])
        return Terminator('assert', text=t, span=span, cond=parse_operand(c), expected=expected,
                          msg=parts[1].strip() if len(parts) > 1 else '', target=target, unwind=unwind)
    # call:  DEST = CALLEE(ARGS) -> TARGETS
    k = find_top(s, ' = ')
    if k >= 0:
        dest = parse_place(s[:k])
        rhs = s[k + 3:]
        a = find_top(rhs, ' -> ', last=True)
        targets = rhs[a + 4:]
        callexpr = rhs[:a].strip()
        # last top-level paren group = the arguments
        depth = 0
        start = -1
        pos = 0
        n = len(callexpr)
        while pos < n:
            c = callexpr[pos]
            if c == '"':
                pos = _skip_string(callexpr, pos)
                continue
            e = _is_char_lit(callexpr, pos)
            if e > 0:
                pos = e
                continue
            if c in OPEN:
                if depth == 0 and c == '(':
                    start = pos
                depth += 1
            elif c in CLOSE:
                depth -= 1
            pos += 1
        callee = callexpr[:start].strip()
        inner = callexpr[start + 1:-1].strip()
        args = [parse_operand(p) for p in split_top(inner, ', ')] if inner else []
        target, unwind = _parse_targets(targets)
        term = Terminator('call', text=t, span=span, place=dest, callee=callee, args=args, target=target, unwind=unwind)
        if callee.startswith('move ') or callee.startswith('copy '):
            term.callee_op = parse_operand(callee)
        return term
    raise ValueError('terminator: ' + s)


def parse_statement(s: str, span=None) -> Statement:
    t = s
    s = s.strip()
    if s.endswith(';'):
        s = s[:-1]
    if s == 'nop' or s.startswith('StorageLive(') or s.startswith('StorageDead(') or s.startswith('FakeRead(') \
            or s.startswith('PlaceMention(') or s.startswith('Retag(') or s.startswith('Coverage::') or s.startswith('ConstEvalCounter') \
            or s.startswith('AscribeUserType(') or s.startswith('BackwardIncompatibleDropHint('):
        return Statement('nop', text=t, span=span)
    if s.startswith('Deinit('):
        return Statement('nop', text=t, span=span)
    if s.startswith('assume('):
        return Statement('other', text=t, span=span, extra=('assume', parse_operand(s[7:-1])))
    if s.startswith('discriminant('):
        e = match_close(s, len('discriminant'))
        place = parse_place(s[len('discriminant('):e])
        val = int(s[e + 1:].strip().lstrip('=').strip())
        return Statement('setdiscr', place=place, extra=val, text=t, span=span)
    if s.startswith('copy_nonoverlapping(') or s.startswith('intrinsic'):
        return Statement('other', text=t, span=span)
    k = find_top(s, ' = ')
    if k < 0:
        raise ValueError('statement: ' + s)
    return Statement('assign', place=parse_place(s[:k]), rvalue=parse_rvalue(s[k + 3:]), text=t, span=span)


# ----------------------------------------------------------------------------
# file-level parsing
# ----------------------------------------------------------------------------

_generic_re = re.compile(r'::<')


def strip_generics(path: str) -> str:
    """remove all <...> generic argument lists from a path; keeps `<T as Trait>` qualified-self syntax
    in a reduced form."""
    out = []
    i = 0
    n = len(path)
    depth = 0
    while i < n:
        c = path[i]
        if c == '<':
            depth += 1
        elif c == '>' and not (i > 0 and path[i - 1] in '-='):
            depth -= 1
        elif depth == 0:
            out.append(c)
        i += 1
    s = ''.join(out)
    s = s.replace('::::', '::')
    while '::::' in s:
        s = s.replace('::::', '::')
    if s.endswith('::'):
        s = s[:-2]
    return s


def canon_callee(callee: str) -> str:
    """canonical, generics-free name of a callee as printed in a call terminator.
    `<T as Trait>::m` becomes `<T' as Trait'>::m` with T', Trait' stripped of generics."""
    c = callee.strip()
    # `map_ref::<impl map::HashMap<K, V, S>>::pin`  ->  `map_ref::HashMap::pin`
    k = c.find('<impl ')
    while k >= 0:
        e = _match_angle(c, k)
        inner = c[k + 6:e].strip()
        if inner.startswith('['):
            rep = 'slice'
        elif inner.startswith('*'):
            rep = 'ptr'
        else:
            rep = strip_generics(inner).lstrip('&').strip().split('::')[-1]
        c = c[:k] + rep + c[e + 1:]
        k = c.find('<impl ')
    if c.startswith('<'):
        e = _match_angle(c, 0)
        inner = c[1:e]
        rest = c[e + 1:]
        k = find_top(inner, ' as ', angle=True)
        if k >= 0:
            ty = strip_generics(inner[:k].strip())
            tr = strip_generics(inner[k + 4:].strip())
            return '<%s as %s>%s' % (ty, tr, strip_generics(rest))
        return '<%s>%s' % (strip_generics(inner), strip_generics(rest))
    return strip_generics(c)


def _match_angle(s: str, i: int) -> int:
    depth = 0
    n = len(s)
    while i < n:
        c = s[i]
        if c == '<':
            depth += 1
        elif c == '>' and not (i > 0 and s[i - 1] in '-='):
            depth -= 1
            if depth == 0:
                return i
        i += 1
    raise ValueError('angle: ' + s)


class ImplResolver:
    """maps `<impl at src/x.rs:L:C: L:C>` to (self type, trait) by reading the source text."""

    def __init__(self, srcroot: str):
        self.srcroot = srcroot
        self.cache: Dict[str, Tuple[str, Optional[str]]] = {}
        self.files: Dict[str, List[str]] = {}

    def lines(self, f):
        if f not in self.files:
            import os
            with open(os.path.join(self.srcroot, f)) as fh:
                self.files[f] = fh.read().split('\n')
        return self.files[f]

    def resolve(self, at: str) -> Tuple[str, Optional[str]]:
        if at in self.cache:
            return self.cache[at]
        m = re.match(r'(.+?):(\d+):(\d+): (\d+):(\d+)$', at)
        f, l1, c1, l2, c2 = m.group(1), int(m.group(2)), int(m.group(3)), int(m.group(4)), int(m.group(5))
        ls = self.lines(f)
        if l1 == l2:
            text = ls[l1 - 1][c1 - 1:c2 - 1]
        else:
            text = ' '.join([ls[l1 - 1][c1 - 1:]] + ls[l1:l2 - 1] + [ls[l2 - 1][:c2 - 1]])
        text = ' '.join(text.split())
        res: Tuple[str, Optional[str]]
        if text.startswith('impl') or text.startswith('unsafe impl'):
            t = text[text.index('impl') + 4:].strip()
            if t.startswith('<'):
                t = t[_match_angle(t, 0) + 1:].strip()
            w = find_top(t, ' where ', angle=True)
            if w >= 0:
                t = t[:w]
            if t.endswith(' where'):
                t = t[:-6]
            k = find_top(t, ' for ', angle=True)
            if k >= 0:
                tr = strip_generics(t[:k].strip())
                ty = strip_generics(t[k + 5:].strip())
                res = (ty, tr)
            else:
                res = (strip_generics(t.strip()), None)
        else:
            # a derive: `#[derive(Debug, Clone)]` -> span points at the trait name in the attribute
            res = ('?derive', text.strip())
        self.cache[at] = res
        return res


_hdr_re = re.compile(r'^(fn|const|static(?: mut)?) (.*)$')


def parse_mir(text: str, srcroot: str) -> Dict[str, Function]:
    """parse a whole MIR dump. returns canonical-name -> Function (promoted consts are attached to their owner and
    also returned under `owner::promoted[N]`)."""
    import hashlib
    resolver = ImplResolver(srcroot)
    lines = text.split('\n')
    fns: Dict[str, Function] = {}
    i = 0
    n = len(lines)
    derive_self: Dict[str, str] = {}
    while i < n:
        line = lines[i]
        m = _hdr_re.match(line)
        if not m or not line.rstrip().endswith('{') and ' = {' not in line and not line.rstrip().endswith('{'):
            i += 1
            continue
        code, _ = strip_comment(line)
        if not code.endswith('{'):
            i += 1
            continue
        # collect body until matching top-level '}' (a line that is exactly '}')
        j = i + 1
        body = []
        while j < n and lines[j] != '}':
            body.append(lines[j])
            j += 1
        fn = _parse_function(m.group(1), code, body, resolver)
        if fn is not None:
            fn.text_hash = hashlib.sha256(('\n'.join(strip_comment(x)[0] for x in [line] + body)).encode()).hexdigest()[:16]
            key = fn.name
            k = 2
            while key in fns:
                key = '%s#%d' % (fn.name, k)
                k += 1
            fn.name = key
            fns[key] = fn
        i = j + 1
    return fns


def _canon_def_name(raw: str, resolver: ImplResolver) -> Tuple[str, Optional[str]]:
    """raw def path as printed in the header -> canonical name; e.g.
    `map::<impl at src/map.rs:1578:1: 1582:20>::put` -> `map::HashMap::put`
    `map::<impl at src/map.rs:2938:1: 2938:40>::drop` -> `<map::HashMap as Drop>::drop`"""
    m = re.search(r'<impl at ([^>]+)>', raw)
    if not m:
        return strip_generics(raw), None
    at = m.group(1)
    ty, tr = resolver.resolve(at)
    prefix = raw[:m.start()]
    rest = raw[m.end():]
    if ty == '?derive':
        # find the type the derive is attached to: the next `struct|enum NAME` after that line
        f, l = re.match(r'(.+?):(\d+):', at).groups()
        ls = resolver.lines(f)
        tyname = '?'
        for k in range(int(l) - 1, min(len(ls), int(l) + 12)):
            mm = re.search(r'\b(struct|enum|union)\s+([A-Za-z_0-9]+)', ls[k])
            if mm:
                tyname = mm.group(2)
                break
        return '<%s%s as %s>%s' % (prefix, tyname, tr, rest), at
    ty = ty.lstrip('&').strip()
    if ty.startswith('mut '):
        ty = ty[4:]
    tyq = ty if '::' in ty else prefix + ty
    if tr is None:
        return '%s%s' % (tyq, rest), at
    return '<%s as %s>%s' % (tyq, tr, rest), at


def _parse_function(kind: str, header: str, body: List[str], resolver: ImplResolver) -> Optional[Function]:
    is_const = kind != 'fn'
    h = header[len(kind) + 1:]
    params: List[Tuple[int, str]] = []
    ret = ''
    if not is_const:
        p = find_top(h, '(', angle=True)
        # the param list is the top-level paren group that starts with '_1:' or is '()'
        # walk: find '(' at angle depth 0 such that what follows is '_' or ')'
        pos = 0
        start = -1
        adepth = 0
        while pos < len(h):
            c = h[pos]
            if c == '<':
                adepth += 1
            elif c == '>' and not (pos > 0 and h[pos - 1] in '-='):
                adepth -= 1
            elif c == '(' and adepth == 0 and (h[pos + 1] == '_' or h[pos + 1] == ')'):
                start = pos
                break
            pos += 1
        if start < 0:
            return None
        e = match_close(h, start)
        raw = h[:start].strip()
        inner = h[start + 1:e]
        for part in split_top(inner, ', '):
            part = part.strip()
            if not part:
                continue
            c = part.index(': ')
            params.append((int(part[1:c]), part[c + 2:]))
        rest = h[e + 1:].strip()
        if rest.startswith('->'):
            ret = rest[2:].rstrip('{').strip()
    else:
        c = find_top(h, ': ', angle=True)
        raw = h[:c].strip()
        ret = h[c + 2:].rsplit(' = ', 1)[0].strip()
    promoted_idx = None
    mm = re.search(r'::promoted\[(\d+)\]$', raw)
    if mm:
        promoted_idx = int(mm.group(1))
        raw_owner = raw[:mm.start()]
        name, at = _canon_def_name(raw_owner, resolver)
        name = '%s::promoted[%d]' % (name, promoted_idx)
    else:
        name, at = _canon_def_name(raw, resolver)
    locals_: Dict[int, str] = {}
    debug: Dict[str, Any] = {}
    blocks: Dict[int, Block] = {}
    for pn, pt in params:
        locals_[pn] = pt
    cur: Optional[Block] = None
    pending: List[Tuple[str, Optional[str]]] = []
    k = 0
    nb = len(body)
    while k < nb:
        line, comment = strip_comment(body[k])
        s = line.strip()
        k += 1
        if not s:
            continue
        span = None
        if comment:
            m = re.search(r'at (\S+:\d+:\d+: \d+:\d+)', comment)
            if m:
                span = m.group(1)
        m = re.match(r'bb(\d+)( \(cleanup\))?: \{$', s)
        if m:
            cur = Block(int(m.group(1)), bool(m.group(2)), [], None)  # type: ignore
            pending = []
            continue
        if cur is None:
            m = re.match(r'let (mut )?_(\d+): (.*);$', s)
            if m:
                locals_[int(m.group(2))] = m.group(3)
                continue
            m = re.match(r'debug (.+?) => (.*);$', s)
            if m:
                v = m.group(2)
                mv = _local_re.match(v)
                debug[m.group(1)] = int(mv.group(1)) if mv else v
                continue
            continue  # scope lines, braces
        if s == '}':
            # end of block: last pending statement is the terminator
            if pending:
                tt, tspan = pending[-1]
                stmts = [parse_statement(a, b) for a, b in pending[:-1]]
                cur.stmts = stmts
                cur.term = parse_terminator(tt, tspan)
                blocks[cur.idx] = cur
            cur = None
            pending = []
            continue
        # statements may span several lines? (they do not in practice)
        pending.append((s, span))
    return Function(raw_name=raw, name=name, params=params, ret=ret, locals=locals_, debug=debug, blocks=blocks,
                    impl_at=at, is_const=is_const)
