"""Sequential scenarios on the concrete-heap interpreter: operation scripts with SYMBOLIC keys (and a symbolic hash function
of the key), explored over all feasible paths, checked against

  * a reference association list over the same symbolic key terms (C02, C13) - every comparison between the reference
    and the implementation is a solver query under the path condition,
  * the reclamation / drop ledger (C03, C04): use-after-free, double free, double retire, tokens dropped while a guard
    that handed them out is still live, leaks and double drops at teardown,
  * the quiescence oracle on the concrete heap (C05, C06, C10 part 3): table shape, thresholds, bin placement, key
    uniqueness, count, tree-bin invariants, iteration == lookups,
  * fault injection (C18): a closure that panics at its i-th invocation (unwinding through the MIR's cleanup blocks).
"""
from __future__ import annotations
import itertools, math, os, re, time, traceback
from dataclasses import dataclass, field
from typing import Any, Callable, Dict, List, Optional, Tuple
import z3
from . import common as C
from .mirpath import Program
from .modeb import (Interp, PathCtx, Explorer, Sc, Agg, Ptr, Holder, Tok, Opaque, UNIT, Unwind, Violation, Unsupported, PathAbort, to_z3, MutexV)
from .modeb_env import Env
from .mapdrv import MapDriver

KEY_W = 8


# ---------------------------------------------------------------------------------------------
# hash classes
# ---------------------------------------------------------------------------------------------

def hash_class(name: str):
    """returns (hash_fn(it, keytok) -> Sc u64, assumptions builder)"""
    hf = z3.Function('h', z3.BitVecSort(KEY_W), z3.BitVecSort(64))

    def kz(k):
        return z3.BitVecVal(k.val, KEY_W) if isinstance(k.val, int) else k.val

    if name == 'const':
        return (lambda it, k: Sc(5, 'u64')), (lambda keys: [])
    if name == 'identity':
        def f(it, k):
            return Sc(k.val, 'u64') if isinstance(k.val, int) else Sc(z3.ZeroExt(64 - KEY_W, k.val), 'u64')
        return f, (lambda keys: [])
    if name == 'samebin':       # same bin in every table up to 2^20 bins, different hashes
        def f(it, k):
            return Sc(1 + (k.val << 20), 'u64') if isinstance(k.val, int) else Sc(z3.BitVecVal(1, 64) + (z3.ZeroExt(64 - KEY_W, k.val) << 20), 'u64')
        return f, (lambda keys: [])
    if name == 'twohash':       # two full hashes that differ exactly in the bit a 64 -> 128 resize splits on; half of the keys each
        def f(it, k):
            return Sc(1 + ((k.val & 1) << 6), 'u64') if isinstance(k.val, int) else Sc(z3.BitVecVal(1, 64) + ((z3.ZeroExt(64 - KEY_W, k.val) & 1) << 6), 'u64')
        return f, (lambda keys: [])
    if name == 'mixed':         # one bin, four full hashes: keys with equal k & 3 share their whole hash, the classes differ (partial collisions)
        def f(it, k):
            return Sc(1 + ((k.val & 3) << 20), 'u64') if isinstance(k.val, int) else Sc(z3.BitVecVal(1, 64) + ((z3.ZeroExt(64 - KEY_W, k.val) & 3) << 20), 'u64')
        return f, (lambda keys: [])
    if name == 'split':         # collide in tables of up to 64 bins, spread over the halves at every later doubling
        def f(it, k):
            return Sc(1 + (k.val << 6), 'u64') if isinstance(k.val, int) else Sc(z3.BitVecVal(1, 64) + (z3.ZeroExt(64 - KEY_W, k.val) << 6), 'u64')
        return f, (lambda keys: [])
    if name == 'highbits':
        def f(it, k):
            return Sc(k.val << 56, 'u64') if isinstance(k.val, int) else Sc(z3.ZeroExt(64 - KEY_W, k.val) << 56, 'u64')
        return f, (lambda keys: [])
    if name == 'symbolic':      # an arbitrary function of the key with values in 0..3 (bin parity and first split bit free)
        def f(it, k):
            return Sc(z3.simplify(hf(kz(k))), 'u64')

        def assume(universe):
            out = []
            for u in range(universe):
                h = hf(z3.BitVecVal(u, KEY_W))
                out.append((h & ~z3.BitVecVal(0x3, 64)) == 0)
            return out
        return f, assume
    raise ValueError(name)


# ---------------------------------------------------------------------------------------------
# the reference model
# ---------------------------------------------------------------------------------------------

@dataclass
class Entry:
    ktok: Tok
    vtok: Tok


class Mismatch(Exception):
    def __init__(self, what, model=None):
        self.what = what
        self.model = model
        super().__init__(what)


def _can_differ(orc, a, b) -> bool:
    try:
        orc.must(orc.kz(a) == orc.kz(b), '')
        return False
    except Exception:
        return True


class Oracle:
    def __init__(self, ctx: PathCtx):
        self.ctx = ctx
        self.entries: List[Entry] = []

    def kz(self, k: Tok):
        return z3.BitVecVal(k.val, KEY_W) if isinstance(k.val, int) else k.val

    def must(self, cond, what):
        """pc => cond, else Mismatch with a model"""
        c = z3.simplify(cond)
        if z3.is_true(c):
            return
        s = self.ctx.solver
        s.push()
        s.add(z3.Not(c))
        r = s.check()
        C.STATS.queries += 1
        mdl = s.model() if r == z3.sat else None
        s.pop()
        if r == z3.sat:
            raise Mismatch(what, mdl)
        if r == z3.unknown:
            raise C.Inconclusive('solver unknown in oracle comparison')

    def absent(self, k: Tok, what):
        for e in self.entries:
            self.must(self.kz(e.ktok) != self.kz(k), '%s: but the reference holds an entry whose key can equal it (entry key %r)' % (what, e.ktok))

    def entry_of_value(self, v, what) -> Entry:
        if not isinstance(v, Tok):
            raise Mismatch('%s: returned %r which is not a value' % (what, v))
        for e in self.entries:
            if e.vtok.id == v.id:
                return e
        raise Mismatch('%s: returned value %r is not the current value of any entry of the reference' % (what, v))

    def present_as(self, k: Tok, v, what) -> Entry:
        e = self.entry_of_value(v, what)
        self.must(self.kz(e.ktok) == self.kz(k), '%s: returned the value of key %r, which need not equal the requested key' % (what, e.ktok))
        return e


# ---------------------------------------------------------------------------------------------
# quiescence oracle on the concrete heap
# ---------------------------------------------------------------------------------------------

def is_pow2(n):
    return n > 0 and (n & (n - 1)) == 0


def load_cell(cellagg):
    """value stored in reclaim::Atomic / AtomicPtr / AtomicCell aggregates"""
    v = cellagg
    while isinstance(v, Agg) and len(v.fields) == 1 and (v.ty.endswith('Atomic') or v.ty in ('AtomicPtr', 'AtomicCell')):
        v = v.fields[0]
    return v


def entry_of(ptr) -> Any:
    """BinEntry behind a Shared/raw pointer (None for null)"""
    if ptr.base is None:
        return None
    if ptr.base.freed:
        raise Violation('use-after-free', 'the quiescent structure still links to reclaimed %r' % (ptr.base,))
    return ptr.base.val.fields[1]


class Quiescence:
    def __init__(self, d: MapDriver, orc: Oracle, hash_of: Callable[[Tok], Any]):
        self.d = d
        self.orc = orc
        self.hash_of = hash_of
        self.stats = {'bins': 0, 'list_nodes': 0, 'tree_bins': 0, 'tree_nodes': 0}

    def fail(self, what):
        raise Mismatch('quiescence: ' + what)

    def check(self):
        d, orc = self.d, self.orc
        cells = d.cells()
        if not cells['next_table_null']:
            self.fail('next_table is not null (half-finished resize left behind)')
        t = d.table()
        count = cells['count']
        sc = cells['size_ctl']
        n_entries = len(orc.entries)
        if not count.concrete or int(count.v) != n_entries:
            self.fail('count cell = %s but the reference holds %d entries' % (count.v, n_entries))
        ln = d.len()
        if int(ln.v) != n_entries:
            self.fail('len() = %s but the reference holds %d entries' % (ln.v, n_entries))
        ie = d.is_empty()
        if bool(ie.v) != (n_entries == 0):
            self.fail('is_empty() = %s with %d entries' % (ie.v, n_entries))
        nodes: List[Tuple[Tok, Tok]] = []
        if t is None:
            if n_entries:
                self.fail('no table but %d entries' % n_entries)
            if int(sc.v) < 0:
                self.fail('size_ctl negative (%s) with no operation in flight' % sc.v)
            return nodes
        bins = d.bins()
        n = len(bins)
        self.stats['bins'] = n
        if not is_pow2(n) or n > (1 << 30):
            self.fail('table length %d is not a power of two <= 2^30' % n)
        if int(sc.v) != n - (n >> 2):
            self.fail('size_ctl = %s, expected 0.75 * %d = %d' % (sc.v, n, n - (n >> 2)))
        if n_entries >= int(sc.v) and n < (1 << 30):
            self.fail('the entry count %d has reached the growth threshold %s of the %d-bin table, but the table was not replaced by one of twice the length' % (n_entries, sc.v, n))
        if load_cell(t.fields[2]).base is not None:
            pass   # Table.next_table of the current table may only be set by get_moved during a resize of THIS table
        for i, b in enumerate(bins):
            if b is None:
                continue
            if b.variant == 'Moved':
                self.fail('bin %d holds a forwarding marker' % i)
            if b.variant == 'Node':
                cur = b
                seen = 0
                while cur is not None:
                    if cur.variant != 'Node':
                        self.fail('bin %d: list contains a %s' % (i, cur.variant))
                    nd = cur.fields[0]
                    self.node_checks(nd, i, n, nodes)
                    if nd.fields[4].locked:
                        self.fail('bin %d: a node\'s lock is still held' % i)
                    cur = entry_of(load_cell(nd.fields[3]))
                    seen += 1
                    self.stats['list_nodes'] += 1
                    if seen > 10000:
                        self.fail('bin %d: cyclic list' % i)
            elif b.variant == 'Tree':
                self.tree_checks(b.fields[0], i, n, nodes)
            else:
                self.fail('bin %d: head is a %s' % (i, b.variant))
        # every reference entry is stored exactly once (by token identity), nothing else is stored
        ids = sorted((str(k.tag), v.id) for k, v in nodes)
        want = sorted((str(e.ktok.tag), e.vtok.id) for e in orc.entries)
        if ids != want:
            self.fail('stored (key,value) instances %s differ from the reference %s' % (nodes, [(e.ktok, e.vtok) for e in orc.entries]))
        # no key twice: pairwise distinct under the path condition
        for (k1, _), (k2, _) in itertools.combinations(nodes, 2):
            orc.must(orc.kz(k1) != orc.kz(k2), 'quiescence: keys %r and %r are both stored but can be equal' % (k1, k2))
        return nodes

    def node_checks(self, nd: Agg, i: int, n: int, nodes):
        h, k = nd.fields[0], nd.fields[1]
        vptr = load_cell(nd.fields[2])
        if vptr.base is None:
            self.fail('bin %d: node %r has a null value' % (i, k))
        if vptr.base.freed:
            raise Violation('use-after-free', 'node %r stores a reclaimed value' % (k,))
        v = vptr.base.val.fields[1]
        hz = to_z3(h)
        self.orc.must(hz == to_z3(self.hash_of(k)), 'quiescence: node %r stores hash %s which is not the hash of its key' % (k, h.v))
        self.orc.must((hz & z3.BitVecVal(n - 1, 64)) == z3.BitVecVal(i, 64), 'quiescence: node %r (hash %s) sits in bin %d of %d, where a lookup would not search' % (k, h.v, i, n))
        nodes.append((k, v))

    def tree_checks(self, tb: Agg, i: int, n: int, nodes):
        self.stats['tree_bins'] += 1
        if n < 64:
            self.fail('bin %d is a tree but the table has only %d bins' % (i, n))
        root = load_cell(tb.fields[0])
        first = load_cell(tb.fields[1])
        ls = load_cell(tb.fields[4])
        if not (isinstance(ls, Sc) and ls.concrete and int(ls.v) == 0):
            self.fail('bin %d: tree lock_state = %r at quiescence' % (i, ls))
        if tb.fields[3].locked:
            self.fail('bin %d: tree bin lock still held' % i)
        if load_cell(tb.fields[2]).base is not None:
            self.fail('bin %d: waiter set at quiescence' % i)
        # the list
        lst = []
        cur = first
        prev = None
        while cur.base is not None:
            e = entry_of(cur)
            if e.variant != 'TreeNode':
                self.fail('bin %d: tree list contains a %s' % (i, e.variant))
            tn = e.fields[0]
            p = load_cell(tn.fields[4])
            if (prev is None and p.base is not None) or (prev is not None and not (p == prev)):
                self.fail('bin %d: prev link of %r is inconsistent with the list' % (i, tn.fields[0].fields[1]))
            lst.append(cur)
            prev = cur
            cur = load_cell(tn.fields[0].fields[3])
            if len(lst) > 10000:
                self.fail('bin %d: cyclic tree list' % i)
        self.stats['tree_nodes'] += len(lst)
        if len(lst) == 0:
            self.fail('bin %d: empty tree bin' % i)
        # the tree
        if root.base is None:
            self.fail('bin %d: tree bin without root' % i)
        seen = []

        def tnode(p):
            return entry_of(p).fields[0]

        def walk(p, parent, lo, hi, depth):
            """returns black height; checks BST order on (hash, key) through the solver"""
            if p.base is None:
                return 1
            if depth > 64:
                self.fail('bin %d: tree deeper than 64' % i)
            tn = tnode(p)
            if any(p == q for q in seen):
                self.fail('bin %d: node reachable twice in the tree' % i)
            seen.append(p)
            par = load_cell(tn.fields[1])
            if (parent is None and par.base is not None) or (parent is not None and not (par == parent)):
                self.fail('bin %d: parent link of %r wrong' % (i, tn.fields[0].fields[1]))
            red = load_cell(tn.fields[5])
            red = bool(red.v)
            if parent is not None and red and bool(load_cell(tnode(parent).fields[5]).v):
                self.fail('bin %d: red node %r has a red parent' % (i, tn.fields[0].fields[1]))
            hk = (to_z3(tn.fields[0].fields[0]), self.orc.kz(tn.fields[0].fields[1]))
            if lo is not None:
                self.orc.must(z3.Or(z3.ULT(lo[0], hk[0]), z3.And(lo[0] == hk[0], z3.ULT(lo[1], hk[1]))), 'quiescence: tree order violated below %r (bin %d)' % (tn.fields[0].fields[1], i))
            if hi is not None:
                self.orc.must(z3.Or(z3.ULT(hk[0], hi[0]), z3.And(hk[0] == hi[0], z3.ULT(hk[1], hi[1]))), 'quiescence: tree order violated above %r (bin %d)' % (tn.fields[0].fields[1], i))
            l = walk(load_cell(tn.fields[2]), p, lo, hk, depth + 1)
            r = walk(load_cell(tn.fields[3]), p, hk, hi, depth + 1)
            if l != r:
                self.fail('bin %d: black heights differ (%d vs %d) under %r' % (i, l, r, tn.fields[0].fields[1]))
            return l + (0 if red else 1)

        if bool(load_cell(tnode(root).fields[5]).v):
            self.fail('bin %d: red root' % i)
        walk(root, None, None, None, 0)
        if len(seen) != len(lst) or any(not any(p == q for q in lst) for p in seen):
            self.fail('bin %d: the tree (%d nodes) and its traversal list (%d nodes) hold different entries' % (i, len(seen), len(lst)))
        for p in lst:
            self.node_checks(tnode(p).fields[0], i, n, nodes)


# ---------------------------------------------------------------------------------------------
# scenario runner
# ---------------------------------------------------------------------------------------------

@dataclass
class Scenario:
    name: str
    hasher: str = 'identity'
    capacity: Optional[int] = None
    facade: str = 'guard'
    prefill: List[int] = field(default_factory=list)          # concrete keys inserted first
    ops: List[Tuple] = field(default_factory=list)            # ('insert', keyvar) ('get', keyvar) ... keyvar: int index of a symbolic key, or ('c', n) concrete
    universe: int = 3
    check_each_step: bool = False
    panic_at: Optional[int] = None                            # i-th callback invocation panics (over the whole script)
    bulk: Optional[Tuple] = None                              # ('collect', n_items, lower_size_hint): the map is built by FromIterator
    retain_sym: int = 3                                       # the first n predicate answers are symbolic ...
    retain_rest: bool = True                                  # ... the remaining ones are this constant
    unprotected: bool = False


@dataclass
class Finding:
    scenario: str
    kind: str
    what: str
    model: Dict[str, int]
    trace: List[str]


_KEY_CMP = re.compile(r'^<&*[KQT] as (PartialEq|Ord|PartialOrd)>::(eq|ne|cmp|partial_cmp)$')


def key_comparisons(it) -> int:
    """number of user key comparisons (Eq / Ord on K, Q, through any number of references) the interpreter has performed"""
    return sum(v for k, v in it.modelled.items() if _KEY_CMP.match(k))


class Runner:
    """runs one scenario over all its paths"""

    def __init__(self, prog: Program, sc: Scenario, max_paths: int = 4000):
        self.prog = prog
        self.sc = sc
        self.max_paths = max_paths
        self.findings: List[Finding] = []
        self.paths = 0
        self.steps = 0
        self.queries = 0
        self.modelled: Dict[str, int] = {}
        self.executed: Dict[str, int] = {}
        self.cmp_max = 0
        self.stats = {'max_bins': 0, 'tree_bins': 0, 'tree_nodes': 0, 'resizes': 0, 'callbacks': 0, 'panics_injected': 0}
        self.samples: List[Any] = []
        self.covered = False

    def run(self):
        sc = self.sc
        hfn, hassume = hash_class(sc.hasher)
        nsym = 1 + max([x for op in sc.ops for x in op[1:] if isinstance(x, int) and op[0] not in ('reserve',)] + [-1] + ([sc.bulk[1] - 1] if sc.bulk else []))
        self.kvars = [z3.BitVec('k%d' % i, KEY_W) for i in range(nsym)]
        assumptions = [z3.ULT(k, z3.BitVecVal(sc.universe, KEY_W)) for k in self.kvars] + hassume(max(sc.universe, (max(sc.prefill) + 1) if sc.prefill else 0))
        env = Env(self.prog, hfn)
        ex = Explorer(assumptions, self.max_paths)
        self.snapshot = None
        if sc.prefill and sc.hasher != 'symbolic' and not sc.unprotected:
            try:
                self.snapshot = self.build_snapshot(env)
            except (Mismatch, Violation, Unwind):
                # a discrepancy already in the concrete prefix: no snapshot, the ordinary path execution reports it as a finding
                self.snapshot = None

        def scenario(ctx: PathCtx):
            return self.one_path(ctx, env, hfn)

        def on_path(ctx, res, exc):
            self.paths += 1
            if isinstance(exc, Violation):
                self.report(ctx, exc.kind, str(exc), getattr(exc, 'trace', []))
                for v2 in getattr(exc, 'also', []):
                    self.report(ctx, v2.kind, str(v2), getattr(v2, 'trace', []))
        ex.run(scenario, on_path)
        self.queries += ex.queries
        self.covered = ex.coverage_valid() if ex.pcs else True
        return self

    def build_snapshot(self, env):
        """the concrete prefill is executed once; every path starts from a deep copy of the resulting heap"""
        sc = self.sc
        ctx0 = PathCtx([], [])
        it = Interp(self.prog, ctx0, env)
        d = MapDriver(it, sc.capacity, sc.facade)
        d.pin()
        entries = []
        vcount = 1000
        for pk in sc.prefill:
            k = Tok('K', pk, 'pre%d' % pk, it.ledger)
            v = Tok('V', vcount, None, it.ledger)
            vcount += 1
            r = d.insert(k, v)
            if r is not None:
                raise Unsupported('prefill insert(%d) returned %r' % (pk, r))
            entries.append(Entry(k, v))
        # leading operations with concrete keys belong to the snapshot as well
        orc0 = Oracle(ctx0)
        orc0.entries = entries
        self.kept_ids = set()
        n_lead = 0
        vc = itertools.count(vcount)
        for op in sc.ops:
            concrete = (len(op) == 1 and op[0] in ('clear', 'len')) or (len(op) > 1 and isinstance(op[1], tuple))
            if not concrete or sc.panic_at is not None:
                break
            self.do_op(it, d, orc0, op, 'lead%d' % n_lead, vc, [0], {}, [])
            n_lead += 1
        vcount = next(vc)
        self.snap_kept = set(self.kept_ids)
        self.snap_lead = n_lead
        it.ctx = None
        self.steps += it.steps
        return (it, d, entries, vcount)

    def restore_snapshot(self, ctx):
        import copy
        it0, d0, entries0, vcount = self.snapshot
        memo = {id(self.prog): self.prog, id(it0.env): it0.env, id(it0.prog): it0.prog}
        it, d, entries = copy.deepcopy((it0, d0, entries0), memo)
        it.ctx = ctx
        it.steps = 0
        return it, d, entries, vcount

    def report(self, ctx, kind, what, trace):
        mdl = {}
        s = ctx.solver
        if s.check() == z3.sat:
            m = s.model()
            for k in self.kvars:
                mdl[str(k)] = m.eval(k, model_completion=True).as_long()
            hf = z3.Function('h', z3.BitVecSort(KEY_W), z3.BitVecSort(64))
            if self.sc.hasher == 'symbolic':
                for u in range(self.sc.universe):
                    mdl['h(%d)' % u] = m.eval(hf(z3.BitVecVal(u, KEY_W)), model_completion=True).as_long()
            # the predicate answers chosen on this path
            seen = set()
            for c in ctx.pc:
                stack = [c]
                while stack:
                    e = stack.pop()
                    if z3.is_const(e) and e.decl().kind() == z3.Z3_OP_UNINTERPRETED and str(e).startswith('keep_'):
                        seen.add(str(e))
                    else:
                        stack.extend(e.children())
            for name in seen:
                mdl[name] = 1 if z3.is_true(m.eval(z3.Bool(name), model_completion=True)) else 0
        self.findings.append(Finding(self.sc.name, kind, what, mdl, list(trace)))

    def keytok(self, it, spec, tag):
        if isinstance(spec, tuple):
            return Tok('K', spec[1], tag, it.ledger)
        return Tok('K', self.kvars[spec], tag, it.ledger)

    def one_path(self, ctx: PathCtx, env: Env, hfn):
        sc = self.sc
        snap = None
        if self.snapshot is not None:
            snap = self.restore_snapshot(ctx)
            it = snap[0]
        else:
            it = Interp(self.prog, ctx, env)
        self.kept_ids = set()
        self.live_iter = None
        self.sets = None
        trace: List[str] = []
        handed: Dict[int, Tok] = {}
        orc = Oracle(ctx)
        cb_count = [0]

        def hash_of(k):
            return hfn(it, k)

        try:
            vcount0 = itertools.count(5000)
            if sc.bulk is not None:
                from .mapdrv import PyIter
                _, n_items, hint = sc.bulk
                items = []
                for i in range(n_items):
                    kt = Tok('K', self.kvars[i], 'b%d' % i, it.ledger)
                    vt = Tok('V', next(vcount0), None, it.ledger)
                    items.append((kt, vt))
                trace.append('collect(%d items, lower size hint %d)' % (n_items, hint))
                mv = it.call_fn(self.prog.get('<map::HashMap as FromIterator>::from_iter'), [PyIter(items, hint)])
                d = MapDriver(it, None, sc.facade, mapval=mv)
                d.pin()
                # reference: sequential insertion of the items
                for kt, vt in items:
                    hit = None
                    for e in orc.entries:
                        if ctx.branch(orc.kz(e.ktok) == orc.kz(kt)):
                            hit = e
                            break
                    if hit is None:
                        orc.entries.append(Entry(kt, vt))
                    else:
                        hit.vtok = vt
            elif snap is not None:
                d = snap[1]
                orc.entries = snap[2]
            else:
                d = MapDriver(it, sc.capacity, sc.facade)
                if sc.unprotected:
                    from .modeb import GuardV
                    d.guard_holder = Holder(GuardV(None))
                    d.gref = Ptr(d.guard_holder, ())
                else:
                    d.pin()
            L = it.ledger
            vcount = itertools.count(1000 if snap is None else snap[3])
            for pk in (sc.prefill if snap is None else []):
                k = Tok('K', pk, 'pre%d' % pk, L)
                v = Tok('V', next(vcount), None, L)
                r = d.insert(k, v)
                if r is not None:
                    raise Mismatch('prefill insert(%d) returned %r' % (pk, r))
                orc.entries.append(Entry(k, v))
            bins_before = len(d.bins() or [])
            lead = self.snap_lead if snap is not None else 0
            if snap is not None:
                self.kept_ids |= self.snap_kept
                for op in sc.ops[:lead]:
                    trace.append('%s(%s) [snapshot]' % (op[0], op[1][1] if len(op) > 1 else ''))
            for step, op in enumerate(sc.ops):
                if step < lead:
                    continue
                kind = op[0]
                tag = 's%d' % step
                desc = '%s(%s)' % (kind, ('k%d' % op[1]) if len(op) > 1 and isinstance(op[1], int) else (op[1] if len(op) > 1 else ''))
                trace.append(desc)
                panicked = False
                try:
                    self.do_op(it, d, orc, op, tag, vcount, cb_count, handed, trace)
                except Unwind as u:
                    it.panicking = False          # the caller caught the panic
                    if sc.panic_at is not None and 'injected' in u.msg:
                        panicked = True
                        trace.append('  -> closure panicked (injected), unwound to the caller')
                        self.stats['panics_injected'] += 1
                    else:
                        raise Mismatch('operation %s panicked: %s' % (desc, u.msg))
                if it.held_locks:
                    raise Mismatch('a bin lock is still held after %s returned%s' % (desc, ' by unwinding' if panicked else ''))
                li = getattr(self, 'live_iter', None)
                if li is not None and kind not in ('iter_new', 'iter_next', 'iter_drain'):
                    now = {str(e.ktok.tag): e.vtok.id for e in orc.entries}
                    prev = li.get('state', li['s0'])
                    for tg in set(now) | set(prev):
                        if now.get(tg) != prev.get(tg):
                            li['touched'].add(tg)
                    li['ever'] |= set(now.items())
                    li['state'] = now
                if sc.check_each_step or panicked:
                    q = Quiescence(d, orc, hash_of)
                    nodes = q.check()
                    self.iteration_agrees(d, orc, nodes)
                nb = len(d.bins() or [])
                if nb != bins_before:
                    if bins_before == 0:
                        bins_before = nb
                        continue
                    if bins_before and (nb % bins_before != 0 or not is_pow2(nb // bins_before)):
                        raise Mismatch('table length went from %d to %d' % (bins_before, nb))
                    if nb < bins_before:
                        raise Mismatch('table shrank from %d to %d' % (bins_before, nb))
                    self.stats['resizes'] += 1
                    bins_before = nb
            q = Quiescence(d, orc, hash_of)
            nodes = q.check()
            self.iteration_agrees(d, orc, nodes)
            self.lookups_agree(it, d, orc, handed)
            if getattr(self, 'end_hook', None) is not None:
                self.end_hook(it, d)
            self.stats['max_bins'] = max(self.stats['max_bins'], q.stats['bins'])
            self.stats['tree_bins'] += q.stats['tree_bins']
            self.stats['tree_nodes'] += q.stats['tree_nodes']
            # references handed out under the guard are still valid now (C03)
            for t in handed.values():
                if it.ledger.dropped.get(t.id):
                    raise Violation('dropped-under-guard', '%r was handed out under the still-live guard but has been dropped' % (t,))
            d.unpin()
            d.drop_map()
            self.finish_sets(it)
            live = [t for t in L.live_tokens() if t.id not in self.kept_ids]
            if live:
                raise Violation('leak', 'never dropped: %s' % live[:6])
            leaked = [a for a in L.allocs if not a.freed]
            if leaked:
                raise Violation('leak', 'allocations never freed: %s' % leaked[:6])
        except Mismatch as m:
            v = Violation('mismatch', m.what)
            v.trace = trace
            # the functional discrepancy ends the script; the memory epilogue (unpin, drop the map) still runs so that a
            # retirement / double drop that goes with the discrepancy is reported to the property that owns it
            v.also = []
            try:
                for t in handed.values():
                    if it.ledger.dropped.get(t.id):
                        raise Violation('dropped-under-guard', '%r was handed out under the still-live guard but has been dropped' % (t,))
                if not it.held_locks:
                    d.unpin()
                    d.drop_map()
            except Violation as v2:
                if v2.kind in ('use-after-free', 'double-free', 'double-drop', 'double-retire', 'retire-freed', 'dropped-under-guard'):
                    v2.trace = trace + ['  (after the discrepancy above: guard released, map dropped)', '  MIR stack: ' + ' > '.join(reversed(getattr(v2, 'mir_stack', [])[:6]))]
                    v.also.append(v2)
            except Exception:
                pass
            if m.model is not None:
                ctx.add(z3.BoolVal(True))
            raise v
        except Violation as v:
            v.trace = trace + ['  MIR stack: ' + ' > '.join(reversed(getattr(v, 'mir_stack', [])[:6]))]
            raise
        except Unwind as u:
            v = Violation('panic', 'unexpected panic: %s' % u.msg)
            v.trace = trace
            raise v
        finally:
            self.steps += it.steps
            for k, n in it.modelled.items():
                self.modelled[k] = self.modelled.get(k, 0) + n
            for k, n in it.executed.items():
                self.executed[k] = self.executed.get(k, 0) + n
        if len(self.samples) < 3:
            self.samples.append({'scenario': sc.name, 'ops': trace[:12], 'path_condition': [str(z3.simplify(c))[:100] for c in ctx.pc[:8]], 'steps': it.steps})
        return True

    kept_ids: set = set()

    def do_op(self, it, d: MapDriver, orc: Oracle, op, tag, vcount, cb_count, handed, trace):
        sc = self.sc
        L = it.ledger
        kind = op[0]

        def hand(t):
            if isinstance(t, Tok):
                handed[t.id] = t

        def maybe_panic():
            cb_count[0] += 1
            self.stats['callbacks'] += 1
            if sc.panic_at is not None and cb_count[0] == sc.panic_at:
                raise Unwind('injected panic in user closure')

        if kind in ('insert', 'try_insert'):
            k = self.keytok(it, op[1], tag)
            v = Tok('V', next(vcount), None, L)
            if kind == 'insert':
                r = d.insert(k, v)
                if r is None:
                    orc.absent(k, 'insert returned None')
                    orc.entries.append(Entry(k, v))
                else:
                    hand(r)
                    e = orc.present_as(k, r, 'insert returned an old value')
                    e.vtok = v          # value replaced, first key kept
            else:
                r = d.try_insert(k, v)
                if r[0] == 'ok':
                    if r[1] is not v and getattr(r[1], 'id', None) != v.id:
                        raise Mismatch('try_insert Ok returned %r, not the inserted value' % (r[1],))
                    orc.absent(k, 'try_insert returned Ok')
                    orc.entries.append(Entry(k, v))
                else:
                    hand(r[1])
                    orc.present_as(k, r[1], 'try_insert returned Err(current)')
                    if getattr(r[2], 'id', None) != v.id:
                        raise Mismatch('try_insert did not hand back the refused value intact (%r)' % (r[2],))
                    if L.dropped.get(v.id):
                        raise Mismatch('the refused value was dropped by try_insert')
                    self.kept_ids.add(v.id)
        elif kind in ('get', 'get_key_value', 'contains_key'):
            k = self.keytok(it, op[1], tag)
            self.kept_ids.add(k.id)
            if kind == 'get':
                r = d.get(k)
                if r is None:
                    orc.absent(k, 'get returned None')
                else:
                    hand(r)
                    orc.present_as(k, r, 'get')
            elif kind == 'get_key_value':
                r = d.get_key_value(k)
                if r is None:
                    orc.absent(k, 'get_key_value returned None')
                else:
                    hand(r[0]); hand(r[1])
                    e = orc.present_as(k, r[1], 'get_key_value')
                    if r[0].tag != e.ktok.tag:
                        raise Mismatch('get_key_value returned key instance %r, but the key stored first is %r' % (r[0], e.ktok))
            else:
                r = d.contains_key(k)
                if bool(r.v):
                    found = False
                    for e in orc.entries:
                        try:
                            orc.must(orc.kz(e.ktok) == orc.kz(k), '')
                            found = True
                            break
                        except Mismatch:
                            continue
                    if not found:
                        raise Mismatch('contains_key returned true but no reference entry is necessarily equal to the key')
                else:
                    orc.absent(k, 'contains_key returned false')
        elif kind in ('remove', 'remove_entry'):
            k = self.keytok(it, op[1], tag)
            self.kept_ids.add(k.id)
            if kind == 'remove':
                r = d.remove(k)
                rv = r
            else:
                r = d.remove_entry(k)
                rv = r[1] if r is not None else None
            if rv is None:
                orc.absent(k, '%s returned None' % kind)
            else:
                hand(rv)
                e = orc.present_as(k, rv, kind)
                if kind == 'remove_entry':
                    hand(r[0])
                    if r[0].tag != e.ktok.tag:
                        raise Mismatch('remove_entry returned key instance %r, stored key is %r' % (r[0], e.ktok))
                orc.entries.remove(e)
        elif kind in ('compute_some', 'compute_none'):
            k = self.keytok(it, op[1], tag)
            self.kept_ids.add(k.id)
            calls = []
            newv = Tok('V', next(vcount), None, L) if kind == 'compute_some' else None

            def f(itp, kp, vp):
                maybe_panic()
                calls.append((itp.load_ptr(kp), itp.load_ptr(vp)))
                if newv is not None:
                    return Agg('Option', 'Some', [newv])
                return Agg('Option', 'None', [])
            try:
                r = d.compute_if_present(k, f)
            except Unwind:
                if newv is not None and not calls:
                    self.kept_ids.add(newv.id)
                raise
            if len(calls) > 1:
                raise Mismatch('compute_if_present called the remapping function %d times' % len(calls))
            if not calls:
                if newv is not None:
                    self.kept_ids.add(newv.id)      # never handed to the map
                orc.absent(k, 'compute_if_present did not call the function')
                if r is not None:
                    raise Mismatch('compute_if_present returned %r without calling the function' % (r,))
            else:
                e = orc.present_as(k, calls[0][1], 'compute_if_present passed a value to the function')
                if calls[0][0].tag != e.ktok.tag:
                    raise Mismatch('compute_if_present passed key instance %r, stored key is %r' % (calls[0][0], e.ktok))
                if newv is not None:
                    if r is None or r.id != newv.id:
                        raise Mismatch('compute_if_present returned %r, expected the new value' % (r,))
                    hand(r)
                    e.vtok = newv
                else:
                    if r is not None:
                        raise Mismatch('compute_if_present returned %r after a removal' % (r,))
                    orc.entries.remove(e)
        elif kind in ('retain_replace', 'retain_force_replace', 'retain_replace_grow', 'retain_force_replace_grow'):
            # the predicate replaces the value of the first entry it inspects (through the real insert) and then rejects it;
            # every other entry is kept.  retain must keep the replaced entry, retain_force must remove it.
            seen = []
            state = {}

            def pred(itp, kp, vp):
                maybe_panic()
                kt, vt = itp.load_ptr(kp), itp.load_ptr(vp)
                e = orc.entry_of_value(vt, 'retain predicate argument')
                seen.append(e)
                if len(seen) == 1:
                    nv = Tok('V', next(vcount), None, L)
                    old = d.insert(Tok('K', kt.val, tag + 'r', L), nv)
                    if old is None or old.id != e.vtok.id:
                        raise Mismatch('re-entrant insert from the predicate returned %r, expected the inspected value' % (old,))
                    e.vtok = nv
                    state['e'] = e
                    if kind.endswith('_grow'):
                        # the same writer also grows the map: by the time of the removal the table has been swapped
                        for j in range(6):
                            gk = Tok('K', 100 + j, tag + 'g%d' % j, L)
                            gv = Tok('V', next(vcount), None, L)
                            if d.insert(gk, gv) is not None:
                                raise Mismatch('insert of a fresh key from the predicate returned a previous value')
                            orc.entries.append(Entry(gk, gv))
                    return Sc(False, 'bool')
                return Sc(True, 'bool')
            d.retain(pred, force=kind.startswith('retain_force'))
            if kind.startswith('retain_force') and 'e' in state:
                orc.entries.remove(state['e'])
        elif kind in ('retain', 'retain_force'):
            # the predicate's answers are symbolic: one fresh Boolean per invocation
            seen = []
            removed: List[Entry] = []

            def pred(itp, kp, vp):
                maybe_panic()
                kt, vt = itp.load_ptr(kp), itp.load_ptr(vp)
                e = orc.entry_of_value(vt, 'retain predicate argument')
                if kt.tag != e.ktok.tag:
                    raise Mismatch('retain passed key instance %r with the value of %r' % (kt, e.ktok))
                if any(x is e for x in seen):
                    raise Mismatch('retain visited %r twice' % (e.ktok,))
                seen.append(e)
                if len(seen) <= sc.retain_sym:
                    keep = itp.ctx.branch(z3.Bool('keep_%s_%d' % (tag, len(seen))))
                else:
                    keep = sc.retain_rest
                if not keep:
                    removed.append(e)
                return Sc(keep, 'bool')
            try:
                d.retain(pred, force=(kind == 'retain_force'))
            finally:
                # entries whose predicate answered false *and returned* are removed, also when a later invocation panics
                for e in removed:
                    if e in orc.entries:
                        orc.entries.remove(e)
            if len(seen) + 0 != len(orc.entries) + len(removed):
                raise Mismatch('retain visited %d entries, the reference held %d' % (len(seen), len(orc.entries) + len(removed)))
        elif kind == 'iter_new':
            itv = it.call_fn(d.fn('map::HashMap::iter'), [d.mref, d.gref])
            self.live_iter = {'holder': Holder(itv), 's0': {str(e.ktok.tag): e.vtok.id for e in orc.entries}, 'touched': set(),
                              'ever': {(str(e.ktok.tag), e.vtok.id) for e in orc.entries}, 'yielded': [], 'done': False}
        elif kind in ('iter_next', 'iter_drain'):
            li = self.live_iter
            n = op[1][1] if kind == 'iter_next' else 100000
            for _ in range(n):
                if li['done']:
                    break
                r = it.call_fn(d.fn('<iter::Iter as Iterator>::next'), [Ptr(li['holder'], ())])
                if r.variant == 'None':
                    li['done'] = True
                    break
                x = r.fields[0]
                kt, vt = it.load_ptr(x.fields[0]), it.load_ptr(x.fields[1])
                li['yielded'].append((str(kt.tag), vt.id))
                if len(li['yielded']) > 10000:
                    raise Mismatch('the iterator does not terminate')
            if kind == 'iter_drain':
                if not li['done']:
                    raise Mismatch('the iterator did not finish')
                ys = li['yielded']
                for tg, vid in ys:
                    if (tg, vid) not in li['ever']:
                        raise Mismatch('the iterator yielded (%s, value#%d), a pair that was never in the map during the iteration' % (tg, vid))
                for tg, vid in li['s0'].items():
                    if tg in li['touched']:
                        continue
                    cnt = len([1 for (a, b) in ys if a == tg])
                    if cnt != 1:
                        raise Mismatch('key instance %s was present and untouched for the whole iteration but was yielded %d times (yielded: %s)' % (tg, cnt, ys))
                    if (tg, vid) not in ys:
                        raise Mismatch('key instance %s was yielded with a value other than its (unchanged) value' % tg)
                it.drop_value(li['holder'].val, 'iterator drop')
                self.live_iter = None
        elif kind == 'extend':
            # <&HashMap as Extend<(K, V)>>::extend with a harness iterator over the given key variables
            from .mapdrv import PyIter
            items = []
            for j, kv in enumerate(op[1:]):
                kt = self.keytok(it, kv, '%sx%d' % (tag, j))
                items.append((kt, Tok('V', next(vcount), None, L)))
            hm = Holder(d.mref)
            it.call_fn(d.fn('<map::HashMap as Extend>::extend'), [Ptr(hm, ()), PyIter(items, len(items))])
            for kt, vt in items:
                hit = None
                for e in orc.entries:
                    if it.ctx.branch(orc.kz(e.ktok) == orc.kz(kt)):
                        hit = e
                        break
                if hit is None:
                    orc.entries.append(Entry(kt, vt))
                else:
                    hit.vtok = vt
        elif kind == 'clone_eq':
            # clone() must equal the original, stop being equal after a divergent insert, and drop all its copies
            c = it.call_fn(d.fn('<map::HashMap as Clone>::clone'), [d.mref])
            ch = Holder(c)
            eq = it.call_fn(d.fn('<map::HashMap as PartialEq>::eq'), [d.mref, Ptr(ch, ())])
            if not bool(eq.v):
                raise Mismatch('a clone does not compare equal to the map it was cloned from')
            dc = MapDriver(it, None, 'guard', mapval=c)
            dc.holder = ch
            dc.mref = Ptr(ch, ())
            dc.pin()
            got = sorted((str(k.tag), v.val) for k, v in dc.iter_all('iter'))
            want = sorted((str(e.ktok.tag), e.vtok.val) for e in orc.entries)
            if got != want:
                raise Mismatch('clone() holds %s, the original %s' % (got, want))
            dc.insert(Tok('K', 200, 'cl', L), Tok('V', next(vcount), None, L))
            eq2 = it.call_fn(d.fn('<map::HashMap as PartialEq>::eq'), [d.mref, Ptr(ch, ())])
            if bool(eq2.v):
                raise Mismatch('maps of different size compare equal')
            dc.unpin()
            dc.drop_map()
        elif kind == 'index':
            k = self.keytok(it, op[1], tag)
            self.kept_ids.add(k.id)
            w = it.call_fn(d.fn('map_ref::HashMap::with_guard'), [d.mref, d.gref])
            hw = Holder(w)
            present = any(not _can_differ(orc, e.ktok, k) for e in orc.entries)
            try:
                r = it.call_fn(d.fn('<map_ref::HashMapRef as Index>::index'), [Ptr(hw, ()), d.keyref(k)])
                v = it.load_ptr(r)
                hand(v)
                orc.present_as(k, v, 'index')
            except Unwind:
                orc.absent(k, 'index panicked (no entry)')
        elif kind in ('sinsert', 'sremove', 'stake', 'scontains', 'sget', 'srelations'):
            self.set_op(it, d, orc, op, tag, L)
        elif kind == 'clear':
            d.clear()
            orc.entries.clear()
        elif kind == 'reserve':
            d.reserve(op[1][1] if isinstance(op[1], tuple) else op[1])
        elif kind == 'len':
            ln = d.len()
            if int(ln.v) != len(orc.entries):
                raise Mismatch('len() = %s, reference %d' % (ln.v, len(orc.entries)))
        elif kind == 'repin':
            d.unpin()
            handed.clear()
            d.pin()
        else:
            raise ValueError(kind)

    # ---- HashSet facade: two sets A and B built through set::HashSet's own MIR -----------------------------------
    def set_op(self, it, d, orc, op, tag, L):
        st = getattr(self, 'sets', None)
        if st is None:
            st = {}
            for nm in ('A', 'B'):
                sv = it.call_fn(d.fn('set::HashSet::with_hasher'), [Opaque('S')])
                h = Holder(sv)
                g = it.call_fn(d.fn('set::HashSet::guard'), [Ptr(h, ())])
                st[nm] = {'h': h, 'ref': Ptr(h, ()), 'gh': Holder(g), 'elems': []}
                st[nm]['g'] = Ptr(st[nm]['gh'], ())
            self.sets = st
        kind = op[0]

        def member(S, k):
            # index of the element of S that necessarily equals k, None if necessarily absent; undetermined -> Mismatch
            for i, e in enumerate(S['elems']):
                if not _can_differ(orc, e, k):
                    return i
            for e in S['elems']:
                orc.must(orc.kz(e) != orc.kz(k), 'set operation %s on %r: membership is not determined by the path condition (element %r)' % (kind, k, e))
            return None
        if kind == 'srelations':
            A, B = st['A'], st['B']
            res = {}
            for nm, fn_, args in (('is_subset', 'set::HashSet::is_subset', [A['ref'], B['ref'], A['g'], B['g']]), ('is_superset', 'set::HashSet::is_superset', [A['ref'], B['ref'], A['g'], B['g']]),
                                  ('is_disjoint', 'set::HashSet::is_disjoint', [A['ref'], B['ref'], A['g'], B['g']])):
                res[nm] = bool(it.truth(it.call_fn(d.fn(fn_), args)))
            a_in_b = [member(B, e) is not None for e in A['elems']]
            b_in_a = [member(A, e) is not None for e in B['elems']]
            want = {'is_subset': all(a_in_b), 'is_superset': all(b_in_a), 'is_disjoint': not any(a_in_b)}
            if res != want:
                raise Mismatch('set relations %s, expected %s (A=%s, B=%s)' % (res, want, A['elems'], B['elems']))
            for nm in ('A', 'B'):
                ln = it.call_fn(d.fn('set::HashSet::len'), [st[nm]['ref']])
                if int(ln.v) != len(st[nm]['elems']):
                    raise Mismatch('set %s: len() = %s, %d elements' % (nm, ln.v, len(st[nm]['elems'])))
            return
        S = st[op[1]]
        k = self.keytok(it, op[2], tag)
        if kind == 'sinsert':
            r = it.call_fn(d.fn('set::HashSet::insert'), [S['ref'], k, S['g']])
            i = member(S, k)
            if bool(it.truth(r)) != (i is None):
                raise Mismatch('HashSet::insert returned %s, element %s' % (r.v, 'absent' if i is None else 'present'))
            if i is None:
                S['elems'].append(k)
        else:
            self.kept_ids.add(k.id)
            kp = d.keyref(k)
            if kind == 'scontains':
                r = it.call_fn(d.fn('set::HashSet::contains'), [S['ref'], kp, S['g']])
                i = member(S, k)
                if bool(it.truth(r)) != (i is not None):
                    raise Mismatch('HashSet::contains returned %s' % r.v)
            elif kind == 'sget':
                r = it.call_fn(d.fn('set::HashSet::get'), [S['ref'], kp, S['g']])
                i = member(S, k)
                if (r.variant == 'Some') != (i is not None) or (i is not None and it.load_ptr(r.fields[0]).tag != S['elems'][i].tag):
                    raise Mismatch('HashSet::get returned %r' % (r,))
            elif kind == 'sremove':
                r = it.call_fn(d.fn('set::HashSet::remove'), [S['ref'], kp, S['g']])
                i = member(S, k)
                if bool(it.truth(r)) != (i is not None):
                    raise Mismatch('HashSet::remove returned %s' % r.v)
                if i is not None:
                    S['elems'].pop(i)
            elif kind == 'stake':
                r = it.call_fn(d.fn('set::HashSet::take'), [S['ref'], kp, S['g']])
                i = member(S, k)
                if (r.variant == 'Some') != (i is not None) or (i is not None and it.load_ptr(r.fields[0]).tag != S['elems'][i].tag):
                    raise Mismatch('HashSet::take returned %r' % (r,))
                if i is not None:
                    S['elems'].pop(i)

    def finish_sets(self, it):
        st = getattr(self, 'sets', None)
        if st:
            for nm in ('A', 'B'):
                it.drop_value(st[nm]['gh'].val, 'set guard')
                it.drop_value(st[nm]['h'].val, 'drop(set)')
            self.sets = None

    def iteration_agrees(self, d: MapDriver, orc: Oracle, nodes):
        for which in (('iter', 'keys', 'values') if (self.sc.check_each_step or self.paths % 16 == 0) else ('iter',)):
            got = d.iter_all(which)
            if which == 'iter':
                ids = sorted((str(k.tag), v.id) for k, v in got)
                want = sorted((str(e.ktok.tag), e.vtok.id) for e in orc.entries)
            elif which == 'keys':
                ids = sorted(str(k.tag) for k in got)
                want = sorted(str(e.ktok.tag) for e in orc.entries)
            else:
                ids = sorted(v.id for v in got)
                want = sorted(e.vtok.id for e in orc.entries)
            if ids != want:
                raise Mismatch('%s() yields %s, the reference holds %s' % (which, got, [(e.ktok, e.vtok) for e in orc.entries]))

    def lookups_agree(self, it, d: MapDriver, orc: Oracle, handed):
        """get() of every stored key finds its entry; comparisons per lookup stay logarithmic in tree bins (C06)"""
        env = it.env
        bins = d.bins() or []
        tree_bound = None
        if len(bins) >= 64 and len(orc.entries) >= 8 and any(b is not None and getattr(b, 'variant', None) == 'Tree' for b in bins):
            tree_bound = 4 * math.ceil(math.log2(len(orc.entries) + 1)) + 2
        for e in list(orc.entries):
            probe = Tok('K', e.ktok.val, 'probe')
            c0 = key_comparisons(it)
            r = d.get(probe)
            c1 = key_comparisons(it)
            if r is None or r.id != e.vtok.id:
                raise Mismatch('at quiescence get(%r) returns %r, the reference holds %r' % (e.ktok, r, e.vtok))
            self.cmp_max = max(self.cmp_max, c1 - c0)
            if tree_bound is not None and c1 - c0 > tree_bound:
                raise Mismatch('quiescence: tree lookup cost: get(%r) (present) needed %d key comparisons in a map of %d entries, bound 4*ceil(log2(n+1))+2 = %d' % (e.ktok, c1 - c0, len(orc.entries), tree_bound))
        # absent keys cost O(log n) as well (C06): probes outside the key universe, in every hash class of the scenario
        if tree_bound is not None:
            nodes = len(orc.entries)
            bound = tree_bound
            for pk in (250, 251, 252, 253):
                probe = Tok('K', pk, 'absent-probe')
                c0 = key_comparisons(it)
                r = d.get(probe)
                c = key_comparisons(it) - c0
                if r is not None:
                    raise Mismatch('get of the absent key %d returns %r' % (pk, r))
                self.cmp_absent_max = max(getattr(self, 'cmp_absent_max', 0), c)
                if c > bound:
                    raise Mismatch('quiescence: tree lookup cost: get(%d) (absent) needed %d key comparisons in a map of %d colliding entries, bound 4*ceil(log2(n+1))+2 = %d' % (pk, c, nodes, bound))
