"""mirsym mode B: concrete-heap symbolic interpreter for flurry's MIR.

KLEE-style: every allocation gets a concrete object on the current path, places and projections are resolved
concretely, only scalars (keys, values, hashes, counters) may be symbolic z3 terms.  A branch on a symbolic condition is a
*decision*; paths are enumerated depth-first by re-execution with a decision prefix, the feasibility of each alternative
is decided by z3 under the path condition.  Unwinding follows the MIR's explicit unwind edges (cleanup blocks run), so
a panicking user closure is just another path.

What is modelled instead of executed (the trusted surface; every modelled callee that was hit is listed in the evidence):
 Box / Vec / boxed slices, mem::{replace,drop,forget,take}, Option / Result / ControlFlow combinators, AtomicPtr /
 AtomicIsize / AtomicI64 / AtomicBool as plain cells (sequential), parking_lot::Mutex as a held/free bit (re-acquiring a
 held lock on a sequential path is reported as self-deadlock), seize as a ledger (allocated, retired, reclaimed at the
 drop of the last guard; an unprotected guard reclaims at once, so a later access is a detected use-after-free),
 thread::{current,park,yield_now} (must not be reached sequentially), num_cpus.
The generic key/value types are instantiated as tokens carrying a symbolic 8-bit payload; Eq/Ord/Hash/Borrow/Clone on
them are the harness's models (hash = a symbolic function of the key chosen by the scenario).
"""
from __future__ import annotations
import itertools, re, sys
from typing import Any, Dict, List, Optional, Tuple, Callable
import z3
from . import mir as M, common as C
from .mirpath import Program, callee_name

sys.setrecursionlimit(20000)

WIDTH = {'u8': 8, 'i8': 8, 'u16': 16, 'i16': 16, 'u32': 32, 'i32': 32, 'u64': 64, 'i64': 64, 'usize': 64, 'isize': 64,
         'u128': 128, 'i128': 128, 'char': 32, 'bool': 1}
SIGNED = {'i8', 'i16', 'i32', 'i64', 'isize', 'i128'}


# ---------------------------------------------------------------------------------------------
# values
# ---------------------------------------------------------------------------------------------

class Sc:
    """scalar: v is a python int/bool or a z3 term"""
    __slots__ = ('v', 'ty')

    def __init__(self, v, ty):
        self.v = v
        self.ty = ty

    def __repr__(self):
        return 'Sc(%s:%s)' % (self.v, self.ty)

    @property
    def concrete(self):
        return isinstance(self.v, (int, bool))


def mask(v: int, ty: str) -> int:
    w = WIDTH[ty]
    v &= (1 << w) - 1
    if ty in SIGNED and v >= (1 << (w - 1)):
        v -= (1 << w)
    return v


def to_z3(s: Sc):
    if isinstance(s.v, bool):
        return z3.BoolVal(s.v)
    if isinstance(s.v, int):
        if s.ty == 'bool':
            return z3.BoolVal(bool(s.v))
        return z3.BitVecVal(s.v, WIDTH[s.ty])
    return s.v


UNIT = ('unit',)


class Agg:
    """struct / enum / tuple / closure value.  `ty` is the generics-free path; variant is the variant *name* for enums."""
    __slots__ = ('ty', 'variant', 'fields')

    def __init__(self, ty, variant, fields):
        self.ty = ty
        self.variant = variant
        self.fields = fields

    def __repr__(self):
        return 'Agg(%s%s %s)' % (self.ty, ('::' + str(self.variant)) if self.variant is not None else '', self.fields)


class Alloc:
    """a heap object"""
    _ids = itertools.count(1)
    __slots__ = ('id', 'val', 'freed', 'kind', 'site', 'retired', 'free_site')

    def __init__(self, val, kind='box', site=''):
        self.id = next(Alloc._ids)
        self.val = val
        self.freed = False
        self.kind = kind
        self.site = site
        self.retired = False

    def __repr__(self):
        return 'Alloc#%d(%s%s)' % (self.id, self.kind, ' FREED' if self.freed else '')


class Ptr:
    """pointer / reference: base is an Alloc, a (Frame, local) slot, or a Holder; path is a tuple of projections."""
    __slots__ = ('base', 'path', 'meta')

    def __init__(self, base, path=(), meta=None):
        self.base = base
        self.path = path
        self.meta = meta

    def __eq__(self, o):
        return isinstance(o, Ptr) and self.base is o.base and self.path == o.path

    def __hash__(self):
        return hash((id(self.base), self.path))

    def __repr__(self):
        return 'Ptr(%s%s)' % (self.base, self.path if self.path else '')


NULL = Ptr(None, ())


class Holder:
    """an anonymous mutable slot (temporaries, promoted constants)"""
    __slots__ = ('val',)

    def __init__(self, val):
        self.val = val


class BoxV:
    __slots__ = ('ptr',)

    def __init__(self, ptr):
        self.ptr = ptr

    def __repr__(self):
        return 'Box(%s)' % (self.ptr,)


class Wrap:
    """Unique / NonNull layers inside a Box"""
    __slots__ = ('ptr', 'layer')

    def __init__(self, ptr, layer):
        self.ptr = ptr
        self.layer = layer


class VecV:
    __slots__ = ('alloc',)

    def __init__(self, alloc):
        self.alloc = alloc       # Alloc whose val is a python list


class Tok:
    """an instance of the generic key / value type: symbolic payload + ghost identity for the drop ledger"""
    _ids = itertools.count(1)
    __slots__ = ('kind', 'val', 'tag', 'id')

    def __init__(self, kind, val, tag=None, ledger=None):
        self.kind = kind
        self.val = val
        self.tag = tag
        self.id = next(Tok._ids)
        if ledger is not None:
            ledger.created(self)

    def __repr__(self):
        return 'Tok%s#%d(%s,tag=%s)' % (self.kind, self.id, self.val, self.tag)


class FnDef:
    __slots__ = ('name', 'raw')

    def __init__(self, name, raw):
        self.name = name
        self.raw = raw

    def __repr__(self):
        return 'FnDef(%s)' % self.name


class Opaque:
    __slots__ = ('what',)

    def __init__(self, what):
        self.what = what

    def __repr__(self):
        return 'Opaque(%s)' % self.what


class MutexV:
    __slots__ = ('locked',)

    def __init__(self):
        self.locked = False


class MutexGuardV:
    __slots__ = ('mutex_ptr', 'released')

    def __init__(self, p):
        self.mutex_ptr = p
        self.released = False


# ---------------------------------------------------------------------------------------------
# exceptions
# ---------------------------------------------------------------------------------------------

class Unwind(Exception):
    """a Rust panic propagating through MIR unwind edges"""

    def __init__(self, msg):
        self.msg = msg


class Violation(Exception):
    """the interpreter detected undefined behaviour / a broken ghost invariant on this path"""

    def __init__(self, kind, msg):
        self.kind = kind
        self.msg = msg
        super().__init__('%s: %s' % (kind, msg))


class Unsupported(Exception):
    pass


class PathAbort(Exception):
    """scenario decided to stop this path (assume failed)"""


# ---------------------------------------------------------------------------------------------
# path exploration by re-execution
# ---------------------------------------------------------------------------------------------

class PathCtx:
    def __init__(self, prefix: List[int], assumptions: List[Any], timeout_ms=20000):
        self.prefix = prefix
        self.pos = 0
        self.decisions: List[Tuple[int, List[int]]] = []    # (chosen option, feasible options)
        self.solver = z3.Solver()
        self.solver.set('timeout', timeout_ms)
        self.pc: List[Any] = []
        for a in assumptions:
            self.solver.add(a)
        self.nqueries = 0

    def add(self, cond):
        self.solver.add(cond)
        self.pc.append(cond)

    def feasible(self, cond) -> bool:
        self.solver.push()
        self.solver.add(cond)
        r = self.solver.check()
        self.solver.pop()
        self.nqueries += 1
        C.STATS.queries += 1
        if r == z3.unknown:
            raise C.Inconclusive('solver unknown on a branch condition')
        return r == z3.sat

    def choose(self, options: List[Any]) -> int:
        """options: z3 conditions (mutually exclusive, jointly exhaustive under the pc).  Returns the index taken on this path."""
        if self.pos < len(self.prefix):
            k = self.prefix[self.pos]
            feas = None
            # feasibility was established when this prefix was created
            self.decisions.append((k, None))
        else:
            feas = [i for i, c in enumerate(options) if self.feasible(c)]
            if not feas:
                raise PathAbort()
            k = feas[0]
            self.decisions.append((k, feas))
        self.pos += 1
        self.add(options[k])
        return k

    def branch(self, cond) -> bool:
        cond = z3.simplify(cond)
        if z3.is_true(cond):
            return True
        if z3.is_false(cond):
            return False
        return self.choose([cond, z3.Not(cond)]) == 0


class Explorer:
    """enumerates all feasible paths of `scenario(ctx)`; returns per-path results"""

    def __init__(self, assumptions: List[Any], max_paths=20000):
        self.assumptions = assumptions
        self.max_paths = max_paths
        self.paths = 0
        self.pcs: List[Any] = []
        self.queries = 0

    def run(self, scenario: Callable[[PathCtx], Any], on_path: Callable[[PathCtx, Any, Optional[BaseException]], None]):
        prefix: List[int] = []
        feas_stack: List[List[int]] = []
        while True:
            ctx = PathCtx(prefix, self.assumptions)
            res = None
            exc = None
            try:
                res = scenario(ctx)
            except PathAbort:
                exc = 'abort'
            except Violation as e:
                exc = e
            self.queries += ctx.nqueries
            if exc != 'abort':
                self.paths += 1
                self.pcs.append(z3.And(ctx.pc) if ctx.pc else z3.BoolVal(True))
                on_path(ctx, res, exc)
            if self.paths >= self.max_paths:
                raise C.Inconclusive('path budget (%d) exhausted' % self.max_paths)
            # merge feasibility info
            dec = ctx.decisions
            for i in range(len(feas_stack), len(dec)):
                feas_stack.append(dec[i][1])
            del feas_stack[len(dec):]
            # backtrack
            choice = [d[0] for d in dec]
            i = len(choice) - 1
            while i >= 0:
                feas = feas_stack[i]
                later = [o for o in feas if o > choice[i]]
                if later:
                    prefix = choice[:i] + [later[0]]
                    del feas_stack[i + 1:]
                    break
                i -= 1
            if i < 0:
                return

    def coverage_valid(self) -> bool:
        """the explored path conditions cover the whole input space allowed by the assumptions (solver verdict)"""
        s = z3.Solver()
        for a in self.assumptions:
            s.add(a)
        s.add(z3.Not(z3.Or(self.pcs)) if self.pcs else z3.BoolVal(True))
        return C.check(s, 'modeb: explored path conditions cover the input space') == 'unsat'


# ---------------------------------------------------------------------------------------------
# ledger (drop accounting + reclamation)
# ---------------------------------------------------------------------------------------------

class Ledger:
    def __init__(self):
        self.tokens: Dict[int, Tok] = {}
        self.dropped: Dict[int, int] = {}
        self.allocs: List[Alloc] = []
        self.events: List[str] = []

    def created(self, t: Tok):
        self.tokens[t.id] = t

    def drop_tok(self, t: Tok, where=''):
        n = self.dropped.get(t.id, 0) + 1
        self.dropped[t.id] = n
        if n > 1:
            raise Violation('double-drop', '%r dropped twice (%s)' % (t, where))

    def live_tokens(self) -> List[Tok]:
        return [t for i, t in self.tokens.items() if self.dropped.get(i, 0) == 0]


class CollectorV:
    _ids = itertools.count(1)

    def __init__(self):
        self.id = next(CollectorV._ids)
        self.retired: List[list] = []        # [ptr, reclaimer, set of guard ids that were active when it was retired]
        self.active_guards = 0
        self.active: set = set()


class GuardV:
    _ids = itertools.count(1)

    def __init__(self, collector: Optional[CollectorV]):
        self.collector = collector     # None = unprotected
        self.dropped = False
        self.id = next(GuardV._ids)


# ---------------------------------------------------------------------------------------------
# the interpreter
# ---------------------------------------------------------------------------------------------

class Frame:
    __slots__ = ('fn', 'locals', 'depth')

    def __init__(self, fn, depth):
        self.fn = fn
        self.locals: Dict[int, Any] = {}
        self.depth = depth


_CALL_CACHE: Dict[int, list] = {}
_STRIP_CACHE: Dict[str, str] = {}


def strip_ty(t: str) -> str:
    return M.strip_generics(t)


class Interp:
    def __init__(self, prog: Program, ctx: PathCtx, env: 'Env'):
        self.prog = prog
        self.ctx = ctx
        self.env = env
        self.ledger = Ledger()
        self.steps = 0
        self.max_steps = 3_000_000
        self.depth = 0
        self.modelled: Dict[str, int] = {}
        self.executed: Dict[str, int] = {}
        self.enum_variants = env.enum_variants
        self.held_locks: List[Ptr] = []
        self.trace_calls = False
        self.consts: Dict[str, Any] = {}
        self.panics: List[str] = []
        self.stack: List[str] = []
        self.sched = None      # set by fv.conc for multi-threaded exploration
        self.lt = None
        self.panicking = False          # an unwind is in flight (std::thread::panicking)

    # ---- scalars ---------------------------------------------------------------------
    def sc(self, v, ty):
        if isinstance(v, bool) and ty != 'bool':
            v = int(v)
        if isinstance(v, int) and ty != 'bool':
            v = mask(v, ty)
        return Sc(v, ty)

    def truth(self, s) -> bool:
        """python truth of a (possibly symbolic) boolean: forks the path"""
        if isinstance(s, Sc):
            v = s.v
        else:
            v = s
        if isinstance(v, (bool, int)):
            return bool(v)
        if z3.is_bv(v):
            v = v != 0
        return self.ctx.branch(v)

    def concretize(self, s: Sc, what='index') -> int:
        """fork over the feasible concrete values of a symbolic scalar (used for table indices and switch discriminants)"""
        if s.concrete:
            return int(s.v)
        # enumerate feasible values through the solver
        v = s.v
        vals = []
        self.ctx.solver.push()
        while True:
            r = self.ctx.solver.check()
            C.STATS.queries += 1
            if r != z3.sat:
                break
            m = self.ctx.solver.model()
            x = m.eval(v, model_completion=True).as_long()
            vals.append(x)
            self.ctx.solver.add(v != x)
            if len(vals) > 256:
                self.ctx.solver.pop()
                raise C.Inconclusive('symbolic %s has more than 256 feasible values' % what)
        self.ctx.solver.pop()
        # NB: on a replayed prefix the enumeration is repeated (deterministic), the choice comes from the prefix
        vals.sort()
        k = self.ctx.choose([v == x for x in vals])
        return mask(vals[k], s.ty) if s.ty in WIDTH else vals[k]

    # ---- constants -------------------------------------------------------------------
    def eval_const(self, text: str, fr: Optional[Frame] = None):
        m = re.match(r'(-?\d+)_([iu](?:8|16|32|64|128|size))$', text)
        if m:
            return Sc(mask(int(m.group(1)), m.group(2)), m.group(2))
        m = re.match(r'(?:core::|std::)?([iu](?:8|16|32|64|128|size))::(MIN|MAX|BITS)$', text)
        if m:
            ty = m.group(1)
            w = WIDTH[ty]
            if m.group(2) == 'BITS':
                return Sc(w, 'u32')
            if ty in SIGNED:
                return Sc(-(1 << (w - 1)) if m.group(2) == 'MIN' else (1 << (w - 1)) - 1, ty)
            return Sc(0 if m.group(2) == 'MIN' else (1 << w) - 1, ty)
        if text == 'true':
            return Sc(True, 'bool')
        if text == 'false':
            return Sc(False, 'bool')
        if text == '()':
            return UNIT
        if text.startswith('"') or text.startswith('b"'):
            return Opaque('str ' + text[:40])
        if text in self.consts:
            return self.consts[text]
        if text.startswith('ZeroSized: {closure@'):
            return Agg(text[len('ZeroSized: '):], 'closure', [])
        if text.startswith('PhantomData') or text.startswith('ZeroSized: PhantomData') or text.startswith('std::marker::PhantomData'):
            return UNIT
        name = M.strip_generics(text)
        if name in self.consts:
            return self.consts[name]
        parts = name.split('::')
        if len(parts) >= 2:
            en, var = parts[-2], parts[-1]
            if (en in self.STD_VARIANTS and var in self.STD_VARIANTS[en]) or (en in self.enum_variants and var in self.enum_variants[en]):
                if en == 'Ordering' and 'atomic' not in name:
                    return Sc(self.STD_VARIANTS['Ordering'][var], 'i8')
                return Agg('::'.join(parts[:-1]), var, [])
        m2 = re.search(r'atomic::Ordering::(\w+)$', name)
        if m2:
            return Sc({'Relaxed': 0, 'Release': 1, 'Acquire': 2, 'AcqRel': 3, 'SeqCst': 4}[m2.group(1)], 'u8')
        cs = self.prog.consts
        for k in (name, name.split('::')[-1]):
            if k in cs:
                v = self.eval_const(cs[k][1])
                self.consts[name] = v
                return v
        mm = re.match(r'(.+)::promoted\[(\d+)\]$', name)
        if mm:
            owner = mm.group(1)
            cands = [f for n, f in self.prog.fns.items() if f.is_const and n.endswith('::promoted[%s]' % mm.group(2)) and (n.startswith(owner + '::') or owner.split('::')[-1] in n)]
            if fr is not None:
                exact = [f for f in cands if f.name.startswith(fr.fn.name.split('#')[0] + '::promoted')]
                cands = exact or cands
            if cands:
                v = self.call_fn(cands[0], [])
                return v
        cands = [f for n, f in self.prog.fns.items() if f.is_const and (n == name or n == name.split('::')[-1] or n.endswith('::' + name))]
        if cands:
            v = self.call_fn(cands[0], [])
            self.consts[name] = v
            return v
        if re.match(r'^(std|core|alloc|seize|parking_lot|[a-z_]+)::', name) or '::' in name or re.match(r'^[A-Za-z_]', name):
            # a function item / ZST constant
            return FnDef(M.canon_callee(text), text)
        return Opaque('const ' + text)

    # ---- places ----------------------------------------------------------------------
    def check_alive(self, base, what='access'):
        if isinstance(base, Alloc) and base.freed:
            raise Violation('use-after-free', '%s of %r (allocated at %s) after it was reclaimed' % (what, base, base.site))

    def base_get(self, base):
        if isinstance(base, Alloc):
            self.check_alive(base, 'read')
            return base.val
        if isinstance(base, Holder):
            return base.val
        fr, idx = base
        return fr.locals.get(idx)

    def base_set(self, base, val):
        if isinstance(base, Alloc):
            self.check_alive(base, 'write')
            base.val = val
        elif isinstance(base, Holder):
            base.val = val
        else:
            fr, idx = base
            fr.locals[idx] = val

    def navigate(self, v, path, create=False):
        for p in path:
            v = self.step_proj(v, p)
        return v

    def step_proj(self, v, p):
        k = p[0]
        if k == 'field':
            i = p[1]
            if isinstance(v, Agg):
                if i >= len(v.fields):
                    raise Unsupported('field %d of %r' % (i, v))
                return v.fields[i]
            if isinstance(v, BoxV):
                if i == 0:
                    return Wrap(v.ptr, 'unique')
                return UNIT
            if isinstance(v, Wrap):
                return Wrap(v.ptr, 'nonnull') if v.layer == 'unique' else v.ptr
            if isinstance(v, tuple) and v is not UNIT:
                return v[i]
            raise Unsupported('field %d of %r' % (i, v))
        if k == 'downcast':
            if isinstance(v, Agg):
                if v.variant != p[1] and str(v.variant) != str(p[1]):
                    raise Violation('bad-downcast', 'downcast of %r to %s' % (v, p[1]))
                return v
            raise Unsupported('downcast of %r' % (v,))
        if k == 'index':
            raise AssertionError('index handled by caller')
        if k == 'idx':
            if isinstance(v, list):
                if not (0 <= p[1] < len(v)):
                    raise Violation('out-of-bounds', 'index %d of array of %d' % (p[1], len(v)))
                return v[p[1]]
            raise Unsupported('index into %r' % (v,))
        raise Unsupported('projection %r' % (p,))

    def set_in(self, v, path, new):
        """functional-in-place update of nested container; returns updated root (aggregates are mutable python objects)"""
        if not path:
            return new
        p = path[0]
        if p[0] == 'field':
            if isinstance(v, Agg):
                v.fields[p[1]] = self.set_in(v.fields[p[1]], path[1:], new)
                return v
            raise Unsupported('write field of %r' % (v,))
        if p[0] == 'downcast':
            return self.set_in(v, path[1:], new)
        if p[0] == 'idx':
            v[p[1]] = self.set_in(v[p[1]], path[1:], new)
            return v
        raise Unsupported('write through %r' % (p,))

    def resolve(self, fr: Frame, pl: M.Place) -> Tuple[Any, Tuple]:
        """place -> (base, path) with derefs resolved"""
        base: Any = (fr, pl.local)
        path: Tuple = ()
        for p in pl.proj:
            k = p[0]
            if k == 'deref':
                v = self.navigate(self.base_get(base), path)
                if isinstance(v, BoxV):
                    v = v.ptr
                if isinstance(v, Wrap):
                    v = v.ptr
                if not isinstance(v, Ptr):
                    raise Unsupported('deref of %r in %s (%s)' % (v, fr.fn.name, pl))
                if v.base is None:
                    raise Violation('null-deref', 'dereference of a null pointer in %s (%s)' % (fr.fn.name, pl))
                base, path = v.base, v.path
            elif k == 'field':
                path = path + (('field', p[1]),)
            elif k == 'downcast':
                path = path + (('downcast', p[1]),)
            elif k == 'index':
                iv = fr.locals[p[1]]
                i = self.concretize(iv, 'slice index')
                path = path + (('idx', i),)
            elif k == 'constindex':
                path = path + (('idx', p[1]),)
            else:
                raise Unsupported('projection %r' % (p,))
        return base, path

    def read_place(self, fr: Frame, pl: M.Place):
        if not pl.proj:
            if pl.local not in fr.locals:
                raise Unsupported('read of uninitialised local _%d in %s' % (pl.local, fr.fn.name))
            return fr.locals[pl.local]
        base, path = self.resolve(fr, pl)
        return self.navigate(self.base_get(base), path)

    def write_place(self, fr: Frame, pl: M.Place, val):
        if not pl.proj:
            fr.locals[pl.local] = val
            return
        base, path = self.resolve(fr, pl)
        root = self.base_get(base)
        self.base_set(base, self.set_in(root, path, val))

    def load_ptr(self, p: Ptr):
        if p.base is None:
            raise Violation('null-deref', 'load through null pointer')
        return self.navigate(self.base_get(p.base), p.path)

    def store_ptr(self, p: Ptr, val):
        if p.base is None:
            raise Violation('null-deref', 'store through null pointer')
        root = self.base_get(p.base)
        self.base_set(p.base, self.set_in(root, p.path, val))

    # ---- operands / rvalues ----------------------------------------------------------
    def copy_val(self, v):
        if isinstance(v, Agg):
            return Agg(v.ty, v.variant, [self.copy_val(x) for x in v.fields])
        if isinstance(v, list):
            return [self.copy_val(x) for x in v]
        return v

    def eval_operand(self, fr: Frame, op: M.Operand):
        if op.kind == 'const':
            return self.eval_const(op.const, fr)
        v = self.read_place(fr, op.place)
        if op.kind == 'copy':
            return self.copy_val(v)
        return v

    def eval_rvalue(self, fr: Frame, rv: M.Rvalue, dest_ty: str):
        k = rv.kind
        if k == 'use':
            return self.eval_operand(fr, rv.ops[0])
        if k in ('ref', 'rawptr'):
            pl = rv.place
            base, path = self.resolve(fr, pl)
            meta = None
            v = None
            return Ptr(base, path, meta)
        if k == 'binop':
            return self.binop(rv.op, self.eval_operand(fr, rv.ops[0]), self.eval_operand(fr, rv.ops[1]))
        if k == 'unop':
            a = self.eval_operand(fr, rv.ops[0])
            if rv.op == 'Not':
                if a.ty == 'bool':
                    return Sc((not a.v) if a.concrete else z3.Not(a.v), 'bool')
                return self.sc(~a.v, a.ty) if a.concrete else Sc(~a.v, a.ty)
            if rv.op == 'Neg':
                return self.sc(-a.v, a.ty) if a.concrete else Sc(-a.v, a.ty)
            if rv.op == 'PtrMetadata':
                if isinstance(a, Ptr):
                    tgt = self.load_ptr(a)
                    if isinstance(tgt, list):
                        return Sc(len(tgt), 'usize')
                return UNIT
            raise Unsupported('unop ' + rv.op)
        if k == 'cast':
            return self.cast(self.eval_operand(fr, rv.ops[0]), rv.ty, rv.op)
        if k == 'discriminant':
            v = self.read_place(fr, rv.place)
            return self.discriminant(v, dest_ty)
        if k == 'aggregate':
            return self.aggregate(fr, rv)
        if k == 'repeat':
            v = self.eval_operand(fr, rv.ops[0])
            n = self.eval_const(rv.extra) if not re.match(r'^\d+$', rv.extra) else Sc(int(rv.extra), 'usize')
            return [self.copy_val(v) for _ in range(int(n.v))]
        if k == 'len':
            v = self.read_place(fr, rv.place)
            return Sc(len(v), 'usize')
        if k == 'nullop':
            return Sc(0, 'usize')
        raise Unsupported('rvalue %s: %s' % (k, rv.text))

    def discriminant(self, v, dest_ty='isize'):
        ty = dest_ty.strip() if dest_ty.strip() in WIDTH else 'isize'
        if isinstance(v, Agg):
            if v.variant is None:
                return Sc(0, ty)
            idx = self.variant_index(v.ty, v.variant)
            return Sc(mask(idx, ty), ty)
        if isinstance(v, Sc):      # C-like enum stored as scalar (Ordering etc.)
            if v.concrete:
                return Sc(mask(int(v.v), ty), ty)
            w = WIDTH[ty]
            x = v.v
            if x.size() > w:
                x = z3.Extract(w - 1, 0, x)
            elif x.size() < w:
                x = z3.SignExt(w - x.size(), x)
            return Sc(x, ty)
        raise Unsupported('discriminant of %r' % (v,))

    STD_VARIANTS = {
        'Option': {'None': 0, 'Some': 1}, 'Result': {'Ok': 0, 'Err': 1}, 'ControlFlow': {'Continue': 0, 'Break': 1},
        'Ordering': {'Less': -1, 'Equal': 0, 'Greater': 1},
    }

    def variant_index(self, ty: str, variant) -> int:
        if isinstance(variant, int):
            return variant
        last = ty.split('::')[-1]
        if last in self.STD_VARIANTS and variant in self.STD_VARIANTS[last]:
            return self.STD_VARIANTS[last][variant]
        ev = self.enum_variants.get(last)
        if ev and variant in ev:
            return ev.index(variant)
        raise Unsupported('variant index of %s::%s' % (ty, variant))

    def aggregate(self, fr: Frame, rv: M.Rvalue):
        if rv.op == 'tuple':
            vals = [self.eval_operand(fr, o) for _, o in rv.extra]
            if not vals:
                return UNIT
            return Agg('tuple', None, vals)
        if rv.op == 'array':
            return [self.eval_operand(fr, o) for _, o in rv.extra]
        if rv.op == 'closure':
            return Agg(rv.ty, 'closure', [self.eval_operand(fr, o) for _, o in rv.extra])
        name = _STRIP_CACHE.get(rv.ty)
        if name is None:
            name = strip_ty(rv.ty)
            _STRIP_CACHE[rv.ty] = name
        vals = [self.eval_operand(fr, o) for _, o in rv.extra]
        # atomic memory orderings and other C-like std enums as scalars
        m = re.search(r'atomic::Ordering::(\w+)$', name)
        if m:
            return Sc({'Relaxed': 0, 'Release': 1, 'Acquire': 2, 'AcqRel': 3, 'SeqCst': 4}[m.group(1)], 'u8')
        m = re.search(r'cmp::Ordering::(Less|Equal|Greater)$', name)
        if m:
            return Sc({'Less': -1, 'Equal': 0, 'Greater': 1}[m.group(1)], 'i8')
        if name.endswith('PhantomData') or name.endswith('marker::PhantomData'):
            return UNIT
        parts = name.split('::')
        # enum variant?  `Option::Some`, `node::BinEntry::Node`, `PutResult::Inserted`
        if len(parts) >= 2:
            en, var = parts[-2], parts[-1]
            if en in self.STD_VARIANTS and var in self.STD_VARIANTS[en]:
                return Agg(en, var, vals)
            if en in self.enum_variants and var in self.enum_variants[en]:
                return Agg('::'.join(parts[:-1]), var, vals)
        # struct with named fields: order them by declaration
        last = parts[-1]
        fields = self.env.struct_fields.get(last)
        if fields and rv.extra and not rv.extra[0][0].isdigit():
            byname = {n: v for (n, _), v in zip(rv.extra, vals)}
            vals = [byname[f] for f in fields]
        return Agg(name, None, vals)

    def binop(self, op: str, a, b):
        if isinstance(a, Ptr) or isinstance(b, Ptr):
            if op == 'Eq':
                return Sc(a == b, 'bool')
            if op == 'Ne':
                return Sc(not (a == b), 'bool')
            raise Unsupported('pointer binop ' + op)
        if not (isinstance(a, Sc) and isinstance(b, Sc)):
            raise Unsupported('binop %s on %r, %r' % (op, a, b))
        ty = a.ty
        if a.concrete and b.concrete:
            x, y = int(a.v), int(b.v)
            if ty == 'bool':
                r = {'BitAnd': x & y, 'BitOr': x | y, 'BitXor': x ^ y, 'Eq': x == y, 'Ne': x != y, 'Lt': x < y, 'Le': x <= y, 'Gt': x > y, 'Ge': x >= y}.get(op)
                if r is None:
                    raise Unsupported('bool binop ' + op)
                return Sc(bool(r), 'bool')
            w = WIDTH[ty]
            if op in ('Add', 'AddUnchecked'):
                return Sc(mask(x + y, ty), ty)
            if op in ('Sub', 'SubUnchecked'):
                return Sc(mask(x - y, ty), ty)
            if op in ('Mul', 'MulUnchecked'):
                return Sc(mask(x * y, ty), ty)
            if op == 'Div':
                if y == 0:
                    raise Unwind('division by zero')
                q = abs(x) // abs(y)
                return Sc(mask(q if (x < 0) == (y < 0) else -q, ty), ty)
            if op == 'Rem':
                if y == 0:
                    raise Unwind('remainder by zero')
                r = abs(x) % abs(y)
                return Sc(mask(r if x >= 0 else -r, ty), ty)
            if op == 'BitAnd':
                return Sc(mask(x & y, ty), ty)
            if op == 'BitOr':
                return Sc(mask(x | y, ty), ty)
            if op == 'BitXor':
                return Sc(mask(x ^ y, ty), ty)
            if op in ('Shl', 'ShlUnchecked'):
                return Sc(mask(x << (y & (w - 1)), ty), ty)
            if op in ('Shr', 'ShrUnchecked'):
                if ty in SIGNED:
                    return Sc(mask(x >> (y & (w - 1)), ty), ty)
                return Sc(mask((x & ((1 << w) - 1)) >> (y & (w - 1)), ty), ty)
            if op in ('Eq', 'Ne', 'Lt', 'Le', 'Gt', 'Ge'):
                return Sc({'Eq': x == y, 'Ne': x != y, 'Lt': x < y, 'Le': x <= y, 'Gt': x > y, 'Ge': x >= y}[op], 'bool')
            if op in ('AddWithOverflow', 'SubWithOverflow', 'MulWithOverflow'):
                r = {'A': x + y, 'S': x - y, 'M': x * y}[op[0]]
                mr = mask(r, ty)
                return Agg('tuple', None, [Sc(mr, ty), Sc(mr != r, 'bool')])
            if op == 'Cmp':
                return Sc(-1 if x < y else (0 if x == y else 1), 'i8')
            raise Unsupported('binop ' + op)
        # symbolic
        X, Y = to_z3(a), to_z3(b)
        if ty == 'bool':
            r = {'BitAnd': z3.And(X, Y), 'BitOr': z3.Or(X, Y), 'BitXor': z3.Xor(X, Y), 'Eq': X == Y, 'Ne': X != Y}.get(op)
            if r is None:
                raise Unsupported('bool binop ' + op)
            return Sc(r, 'bool')
        w = WIDTH[ty]
        s = ty in SIGNED
        if Y.size() != w:
            Y = z3.ZeroExt(w - Y.size(), Y) if Y.size() < w else z3.Extract(w - 1, 0, Y)
        if op in ('Add', 'AddUnchecked'):
            return Sc(X + Y, ty)
        if op in ('Sub', 'SubUnchecked'):
            return Sc(X - Y, ty)
        if op in ('Mul', 'MulUnchecked'):
            return Sc(X * Y, ty)
        if op == 'BitAnd':
            return Sc(X & Y, ty)
        if op == 'BitOr':
            return Sc(X | Y, ty)
        if op == 'BitXor':
            return Sc(X ^ Y, ty)
        if op in ('Shl', 'ShlUnchecked'):
            return Sc(X << (Y & (w - 1)), ty)
        if op in ('Shr', 'ShrUnchecked'):
            return Sc((X >> (Y & (w - 1))) if s else z3.LShR(X, Y & (w - 1)), ty)
        if op == 'Eq':
            return Sc(X == Y, 'bool')
        if op == 'Ne':
            return Sc(X != Y, 'bool')
        if op == 'Lt':
            return Sc(X < Y if s else z3.ULT(X, Y), 'bool')
        if op == 'Le':
            return Sc(X <= Y if s else z3.ULE(X, Y), 'bool')
        if op == 'Gt':
            return Sc(X > Y if s else z3.UGT(X, Y), 'bool')
        if op == 'Ge':
            return Sc(X >= Y if s else z3.UGE(X, Y), 'bool')
        if op in ('AddWithOverflow', 'SubWithOverflow', 'MulWithOverflow'):
            ext = z3.SignExt if s else z3.ZeroExt
            XX, YY = ext(w, X), ext(w, Y)
            R = {'A': XX + YY, 'S': XX - YY, 'M': XX * YY}[op[0]]
            r = {'A': X + Y, 'S': X - Y, 'M': X * Y}[op[0]]
            return Agg('tuple', None, [Sc(r, ty), Sc(R != ext(w, r), 'bool')])
        if op == 'Cmp':
            lt = X < Y if s else z3.ULT(X, Y)
            return Sc(z3.If(lt, z3.BitVecVal(-1, 8), z3.If(X == Y, z3.BitVecVal(0, 8), z3.BitVecVal(1, 8))), 'i8')
        if op in ('Div', 'Rem'):
            r = (X / Y if s else z3.UDiv(X, Y)) if op == 'Div' else (z3.SRem(X, Y) if s else z3.URem(X, Y))
            return Sc(r, ty)
        raise Unsupported('symbolic binop ' + op)

    def cast(self, a, ty: str, kind: str):
        ty = ty.strip()
        if isinstance(a, Wrap) or isinstance(a, BoxV):
            return a.ptr
        if isinstance(a, Ptr) or isinstance(a, FnDef) or isinstance(a, Agg) or a is UNIT:
            return a
        if isinstance(a, Sc) and ty in WIDTH:
            if a.concrete:
                if ty == 'bool':
                    return Sc(bool(a.v), 'bool')
                return Sc(mask(int(a.v), ty), ty)
            x = to_z3(a)
            if a.ty == 'bool':
                w1 = WIDTH[ty]
                return Sc(z3.If(x, z3.BitVecVal(1, w1), z3.BitVecVal(0, w1)), ty)
            w0, w1 = x.size(), WIDTH[ty]
            if w1 == w0:
                return Sc(x, ty)
            if w1 < w0:
                return Sc(z3.Extract(w1 - 1, 0, x), ty)
            return Sc((z3.SignExt if a.ty in SIGNED else z3.ZeroExt)(w1 - w0, x), ty)
        if isinstance(a, Sc):
            return a
        raise Unsupported('cast %r as %s (%s)' % (a, ty, kind))

    # ---- execution --------------------------------------------------------------------
    def call_fn(self, fn: M.Function, args: List[Any]):
        self.depth += 1
        if self.depth > 400:
            raise Unsupported('call depth')
        self.executed[fn.name] = self.executed.get(fn.name, 0) + 1
        fr = Frame(fn, self.depth)
        self.stack.append(fn.name.split('::')[-1])
        for (pn, _), a in zip(fn.params, args):
            fr.locals[pn] = a
        try:
            return self.run_frame(fr)
        except Violation as e:
            if not hasattr(e, 'mir_stack'):
                e.mir_stack = []
            e.mir_stack.append('%s @ %s' % (fn.name, getattr(self, 'cur_span', (None,))[0] if len(e.mir_stack) == 0 else '?'))
            raise
        except Unsupported as e:
            if not getattr(e, 'located', False):
                e.located = True
                e.args = (('%s  [in %s, at %s]' % (e.args[0] if e.args else '', fn.name, getattr(self, 'cur_span', None))),)
            raise
        finally:
            self.depth -= 1
            self.stack.pop()

    def run_frame(self, fr: Frame):
        fn = fr.fn
        bidx = 0
        unwinding: Optional[Unwind] = None
        blocks = fn.blocks
        while True:
            self.steps += 1
            if self.steps > self.max_steps:
                raise C.Inconclusive('step budget exhausted (possible non-termination) in %s' % fn.name)
            b = blocks[bidx]
            for s in b.stmts:
                self.cur_span = (s.span, s.text)
                if s.kind == 'assign':
                    pl = s.place
                    dty = fn.locals.get(pl.local, '?') if not pl.proj else '?'
                    v = self.eval_rvalue(fr, s.rvalue, dty)
                    if not pl.proj:
                        fr.locals[pl.local] = v
                    else:
                        self.write_place(fr, pl, v)
                elif s.kind == 'setdiscr':
                    v = self.read_place(fr, s.place)
                    if isinstance(v, Agg):
                        ev = self.enum_variants.get(v.ty.split('::')[-1]) or []
                        std = self.STD_VARIANTS.get(v.ty.split('::')[-1])
                        if std:
                            v.variant = [k for k, i in std.items() if i == s.extra][0]
                        elif ev:
                            v.variant = ev[s.extra]
            t = b.term
            k = t.kind
            self.cur_span = (t.span, t.text)
            if k == 'goto':
                bidx = t.target
            elif k == 'switch':
                d = self.eval_operand(fr, t.discr)
                bidx = self.switch(d, t)
            elif k == 'return':
                return fr.locals.get(0, UNIT)
            elif k == 'call':
                try:
                    res = self.do_call(fr, t)
                except Unwind as u:
                    if isinstance(t.unwind, int):
                        unwinding = u
                        self.panicking = True
                        bidx = t.unwind
                        continue
                    raise
                if t.target is None:
                    raise Unsupported('diverging call returned: ' + t.text)
                if not t.place.proj:
                    fr.locals[t.place.local] = res
                else:
                    self.write_place(fr, t.place, res)
                bidx = t.target
            elif k == 'drop':
                try:
                    v = self.read_place(fr, t.place) if (t.place.proj or t.place.local in fr.locals) else None
                    if v is None and not t.place.proj:
                        # a zero-sized local is never assigned in MIR; if its type has a Drop impl in the crate the drop still runs it
                        tyn = M.strip_generics(fn.locals.get(t.place.local, '')).split('::')[-1]
                        if tyn in self.env.drop_impls:
                            v = Agg(tyn, None, [])
                    if v is not None:
                        self.drop_value(v, 'drop(%s) in %s' % (t.place, fn.name))
                        # moved-out: the slot is dead now
                except Unwind as u:
                    if isinstance(t.unwind, int):
                        unwinding = u
                        self.panicking = True
                        bidx = t.unwind
                        continue
                    raise
                bidx = t.target
            elif k == 'assert':
                c = self.eval_operand(fr, t.cond)
                ok = self.truth(c)
                if ok != t.expected:
                    u = Unwind('assert failed: ' + t.msg)
                    self.panics.append(u.msg + ' @ ' + str(t.span))
                    if isinstance(t.unwind, int):
                        unwinding = u
                        self.panicking = True
                        bidx = t.unwind
                        continue
                    raise u
                bidx = t.target
            elif k == 'resume':
                raise unwinding if unwinding is not None else Unwind('resume')
            elif k == 'unreachable':
                raise Violation('unreachable', 'MIR `unreachable` executed in %s bb%d' % (fn.name, bidx))
            elif k == 'terminate':
                raise Violation('abort', 'panic in a cleanup path (process abort) in %s' % fn.name)
            else:
                raise Unsupported('terminator ' + k)

    def switch(self, d, t: M.Terminator) -> int:
        if isinstance(d, Sc):
            if d.concrete:
                v = int(d.v)
                for c, tgt in t.cases:
                    if v == c or (d.ty in WIDTH and mask(c, d.ty) == v):
                        return tgt
                if t.otherwise is None:
                    raise Violation('switch', 'no arm for %r' % (d,))
                return t.otherwise
            x = d.v
            if z3.is_bool(x):
                opts = []
                tg = []
                for c, tgt in t.cases:
                    opts.append(x if c != 0 else z3.Not(x))
                    tg.append(tgt)
                if t.otherwise is not None:
                    opts.append(z3.Not(z3.Or(opts)) if opts else z3.BoolVal(True))
                    tg.append(t.otherwise)
                return tg[self.ctx.choose(opts)]
            w = x.size()
            opts = [x == z3.BitVecVal(c, w) for c, _ in t.cases]
            tg = [tgt for _, tgt in t.cases]
            if t.otherwise is not None:
                opts.append(z3.And([x != z3.BitVecVal(c, w) for c, _ in t.cases]) if t.cases else z3.BoolVal(True))
                tg.append(t.otherwise)
            return tg[self.ctx.choose(opts)]
        raise Unsupported('switch on %r' % (d,))

    # ---- drop glue ----------------------------------------------------------------------
    def drop_value(self, v, where=''):
        if v is None or v is UNIT or isinstance(v, (Sc, Ptr, FnDef, Opaque, Wrap)):
            return
        if isinstance(v, Tok):
            self.ledger.drop_tok(v, where)
            return
        if callable(v) and not isinstance(v, (Agg, list)):
            return
        if type(v).__name__ == 'PyIter':
            for k, vv in v.items[v.pos:]:
                self.drop_value(k, where)
                self.drop_value(vv, where)
            return
        if isinstance(v, MutexGuardV):
            if not v.released:
                v.released = True
                if self.sched is not None:
                    self.sched.point(self.lt, 'unlock bin')
                m = self.load_ptr(v.mutex_ptr)
                m.locked = False
                if v.mutex_ptr in self.held_locks:
                    self.held_locks.remove(v.mutex_ptr)
            return
        if isinstance(v, MutexV):
            return
        if isinstance(v, GuardV):
            self.env.drop_guard(self, v)
            return
        if isinstance(v, CollectorV):
            return
        if isinstance(v, BoxV):
            a = v.ptr.base
            if isinstance(a, Alloc):
                if a.freed:
                    raise Violation('double-free', 'Box of %r dropped after it was freed (%s)' % (a, where))
                inner = a.val
                self.drop_value(inner, where)
                a.freed = True
                a.free_site = '%s / %s / %s' % (where, getattr(self, 'cur_span', ('?',))[0], '>'.join(self.stack[-7:]))
            return
        if isinstance(v, VecV):
            a = v.alloc
            if a.freed:
                raise Violation('double-free', 'Vec %r dropped twice (%s)' % (a, where))
            for x in a.val:
                self.drop_value(x, where)
            a.freed = True
            return
        if isinstance(v, list):
            for x in v:
                self.drop_value(x, where)
            return
        if isinstance(v, Agg):
            if v.variant == 'closure':
                for x in v.fields:
                    self.drop_value(x, where)
                return
            last = v.ty.split('::')[-1]
            # user Drop impl of the crate
            d = self.env.drop_impls.get(last)
            if d is not None:
                h = Holder(v)
                self.call_fn(d, [Ptr(h, ())])
                v = h.val
            if last == 'Iter' and v.ty == 'slice::Iter':
                return
            if last in ('IntoIter',):
                vec = v.fields[0]
                for x in vec.alloc.val:
                    if x is not None:
                        self.drop_value(x, where)
                vec.alloc.freed = True
                return
            for x in v.fields:
                self.drop_value(x, where)
            return
        raise Unsupported('drop of %r' % (v,))

    # ---- calls ---------------------------------------------------------------------------
    def do_call(self, fr: Frame, t: M.Terminator):
        args = [self.eval_operand(fr, a) for a in t.args]
        if t.callee_op is not None:
            f = self.eval_operand(fr, t.callee_op)
            return self.call_value(f, args)
        info = _CALL_CACHE.get(id(t))
        if info is None:
            name = callee_name(t)
            targets = self.prog.resolve(name, len(t.args))
            info = [name, targets, False, t]
            _CALL_CACHE[id(t)] = info
        name, targets, passthrough = info[0], info[1], info[2]
        if self.trace_calls:
            print('  ' * min(self.depth, 20) + name, [repr(a)[:60] for a in args], file=sys.stderr)
        if passthrough:
            return self.call_fn(targets[0], args)
        res = self.env.model(self, name, t, args, fr)
        if res is not NotImplemented:
            self.modelled[name] = self.modelled.get(name, 0) + 1
            return res
        if len(targets) == 1:
            info[2] = True      # a crate function that no model intercepts: execute its MIR directly from now on
            return self.call_fn(targets[0], args)
        if len(targets) > 1:
            f = self.env.disambiguate(self, name, targets, args, t)
            if f is not None:
                return self.call_fn(f, args)
        raise Unsupported('call of `%s` (%s) from %s' % (name, t.callee, fr.fn.name))

    def call_value(self, f, args):
        """call a closure / fn item"""
        if isinstance(f, Ptr):
            f = self.load_ptr(f)
        if isinstance(f, Agg) and f.variant == 'closure':
            fn = self.env.closure_body(self, f)
            h = Holder(f)
            first = fn.params[0][1] if fn.params else ''
            env_arg = Ptr(h, ()) if first.startswith('&') else f
            return self.call_fn(fn, [env_arg] + list(args))
        if isinstance(f, FnDef):
            r = self.env.model_fn_item(self, f, args)
            if r is not NotImplemented:
                return r
            targets = self.prog.resolve(f.name, len(args))
            if len(targets) == 1:
                return self.call_fn(targets[0], args)
            raise Unsupported('call of fn item %r' % (f,))
        if callable(f):
            return f(self, *args)
        raise Unsupported('call of value %r' % (f,))
