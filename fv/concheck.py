"""Concurrent scenarios on the concrete-heap interpreter: a few logical threads, each running a short script of real map
operations, every schedule within a preemption bound; checked for linearizability of the recorded history, for the
reclamation / drop ledger, for deadlock / lost wakeup, and for the quiescence oracle once all threads have left."""
from __future__ import annotations
import itertools, time, os
from dataclasses import dataclass, field
from typing import Any, Callable, Dict, List, Optional, Tuple
import z3
from . import common as C
from .mirpath import Program
from .modeb import (Interp, PathCtx, Explorer, Sc, Agg, Ptr, Holder, Tok, Opaque, UNIT, Unwind, Violation, Unsupported, PathAbort, GuardV)
from .modeb_env import Env
from .mapdrv import MapDriver
from .seqcheck import hash_class, Oracle, Entry, Quiescence, Mismatch, Finding
from .conc import Scheduler, LThread, attach


@dataclass
class ConcScenario:
    name: str
    hasher: str = 'identity'
    capacity: Optional[int] = None
    prefill: List[int] = field(default_factory=list)
    setup_removes: List[int] = field(default_factory=list)      # keys removed sequentially after the prefill (still before the threads start)
    threads: List[List[Tuple]] = field(default_factory=list)     # per thread: [('insert', k) ...] concrete keys
    preemptions: int = 2
    ncpu: int = 1
    readers: List[int] = field(default_factory=list)          # indices of threads that only read: blocking/spinning there is a violation (C12)
    yield_loads: bool = True            # loads are scheduling points too (False: only writes, CAS, locks, park/unpark)
    inv: Optional[str] = None           # 'resize': evaluate the resize-protocol invariant (fv/resize_inv.py) after every scheduling step


class ThreadDriver(MapDriver):
    """a MapDriver view for one logical thread: same map, own interpreter and guard"""

    def __init__(self, it: Interp, shared: MapDriver):
        self.it = it
        self.prog = it.prog
        self.facade = 'guard'
        self.holder = shared.holder
        self.mref = shared.mref
        self.guard_holder = None
        self.gref = None
        self.dropped = False


ANY = '*any*'       # result wildcard (the operation's own result is not observed)


def seq_apply(state: Dict[int, int], op: Tuple) -> Tuple[Dict[int, int], Any]:
    """reference semantics on {key: value id}; returns (new state, result)"""
    kind, k = op[0], (op[1] if len(op) > 1 else None)
    s = dict(state)
    if kind == 'insert':
        old = s.get(k)
        s[k] = op[2]
        return s, old
    if kind == 'try_insert':
        if k in s:
            return s, ('err', s[k])
        s[k] = op[2]
        return s, ('ok', op[2])
    if kind in ('get', 'contains_key'):
        return s, s.get(k)
    if kind == 'remove':
        old = s.pop(k, None)
        return s, old
    if kind == 'compute_inc':       # value' = new token recorded by the closure: result is (saw old, new)
        if k in s:
            old = s[k]
            s[k] = op[2]
            return s, (old, op[2])
        return s, None
    if kind == 'compute_none':
        if k in s:
            old = s.pop(k)
            return s, (old, None)
        return s, None
    if kind == 'len':
        return s, len(s)
    if kind == 'clear':
        return {}, None
    if kind == 'remove_any':        # one step of clear(): whatever k holds at that moment is removed
        s.pop(k, None)
        return s, ANY
    if kind == 'remove_if':         # one step of retain: remove k only while it still holds the value the predicate inspected
        if s.get(k) == op[2]:
            del s[k]
        return s, ANY
    raise ValueError(kind)


def linearizable(init: Dict[int, int], hist: List[Dict[str, Any]], final: Dict[int, int]) -> Optional[List[int]]:
    """brute force over orders that respect real time (an op that returned before another was invoked precedes it)"""
    n = len(hist)
    for perm in itertools.permutations(range(n)):
        pos = {h: i for i, h in enumerate(perm)}
        ok = True
        for a in range(n):
            for b in range(n):
                if a != b and hist[a]['res_step'] is not None and hist[b]['inv_step'] is not None and hist[a]['res_step'] < hist[b]['inv_step'] and pos[a] > pos[b]:
                    ok = False
                    break
            if not ok:
                break
        if not ok:
            continue
        s = dict(init)
        for h in perm:
            s, r = seq_apply(s, hist[h]['op'])
            if r is not ANY and r != hist[h]['result']:
                ok = False
                break
        if ok and s == final:
            return list(perm)
    return None


class ConcRunner:
    def __init__(self, prog: Program, sc: ConcScenario, max_paths: int = 20000):
        self.prog = prog
        self.sc = sc
        self.max_paths = max_paths
        self.findings: List[Finding] = []
        self.paths = 0
        self.steps = 0
        self.queries = 0
        self.sched_points = 0
        self.max_switches = 0
        self.samples: List[Any] = []
        self.modelled: Dict[str, int] = {}
        self.executed: Dict[str, int] = {}
        self.covered = False

    def run(self):
        sc = self.sc
        hfn, hassume = hash_class(sc.hasher)
        env = Env(self.prog, hfn, ncpu=sc.ncpu)
        ex = Explorer([], self.max_paths)
        self.snapshot = None
        if sc.prefill:
            ctx0 = PathCtx([], [])
            it0 = Interp(self.prog, ctx0, env)
            d0 = MapDriver(it0, sc.capacity, 'guard')
            d0.pin()
            init = {}
            vc = 1000
            for pk in sc.prefill:
                v = Tok('V', vc, None, it0.ledger)
                vc += 1
                d0.insert(Tok('K', pk, 'pre%d' % pk, it0.ledger), v)
                init[pk] = v.id
            for rk in sc.setup_removes:
                d0.remove(Tok('K', rk, 'setup', None))
                init.pop(rk, None)
            d0.unpin()
            it0.ctx = None
            self.steps += it0.steps
            self.snapshot = (it0, d0, init, vc)
        t_start = time.time()
        budget = float(os.environ.get('VERIF_SCENARIO_BUDGET_S') or ('2700' if os.environ.get('VERIF_TIER_RUNNING') == 'thorough' else '900'))

        class _Stop(Exception):
            pass

        def scenario(ctx: PathCtx):
            if len(self.findings) >= 3:
                raise _Stop()          # a violation is definitive: no need to enumerate the remaining schedules
            if time.time() - t_start > budget:
                if self.findings:
                    raise _Stop()
                raise C.Inconclusive('scenario time budget (%ds) exhausted after %d schedules' % (budget, self.paths))
            return self.one_schedule(ctx, env, hfn)

        def on_path(ctx, res, exc):
            self.paths += 1
            if isinstance(exc, Violation):
                self.findings.append(Finding(sc.name, exc.kind, str(exc), {}, list(getattr(exc, 'trace', []))))
        try:
            ex.run(scenario, on_path)
        except _Stop:
            pass
        self.queries = ex.queries
        self.covered = True
        return self

    def one_schedule(self, ctx: PathCtx, env: Env, hfn):
        sc = self.sc
        if self.snapshot is not None:
            import copy
            s_it, s_d, s_init, s_vc = self.snapshot
            memo = {id(self.prog): self.prog, id(s_it.env): s_it.env}
            it0, d0s, init0 = copy.deepcopy((s_it, s_d, s_init), memo)
            it0.ctx = ctx
            it0.steps = 0
        else:
            it0 = Interp(self.prog, ctx, env)
        L = it0.ledger
        sched = Scheduler(ctx, sc.preemptions, max_steps=1500, yield_loads=sc.yield_loads)
        hist: List[Dict[str, Any]] = []
        vcount = itertools.count(1000)
        try:
            if self.snapshot is not None:
                d0 = d0s
                init = init0
                vcount = itertools.count(self.snapshot[3])
            else:
                d0 = MapDriver(it0, sc.capacity, 'guard')
                init = {}
            kept: set = set()
            retain_seen: List[Any] = []
            for ti, script in enumerate(sc.threads):
                itx = Interp(self.prog, ctx, env)
                itx.ledger = L
                dt = ThreadDriver(itx, d0)

                def body(itp, dt=dt, script=script, ti=ti):
                    dt.pin()
                    for op in script:
                        rec = {'thread': ti, 'op': None, 'result': None, 'inv_step': sched.step, 'res_step': None}
                        hist.append(rec)
                        kind, k = op[0], (op[1] if len(op) > 1 else None)
                        if kind == 'insert':
                            v = Tok('V', next(vcount), None, L)
                            rec['op'] = ('insert', k, v.id)
                            r = dt.insert(Tok('K', k, 't%d' % ti, L), v)
                            rec['result'] = r.id if r is not None else None
                        elif kind == 'try_insert':
                            v = Tok('V', next(vcount), None, L)
                            rec['op'] = ('try_insert', k, v.id)
                            r = dt.try_insert(Tok('K', k, 't%d' % ti, L), v)
                            rec['result'] = ('ok', r[1].id) if r[0] == 'ok' else ('err', r[1].id)
                            if r[0] == 'err':
                                kept.add(v.id)
                        elif kind in ('get',):
                            rec['op'] = ('get', k)
                            kt = Tok('K', k, 'probe', L)
                            kept.add(kt.id)
                            r = dt.get(kt)
                            rec['result'] = r.id if r is not None else None
                        elif kind == 'remove':
                            rec['op'] = ('remove', k)
                            kt = Tok('K', k, 'probe', L)
                            kept.add(kt.id)
                            r = dt.remove(kt)
                            rec['result'] = r.id if r is not None else None
                        elif kind in ('compute_inc', 'compute_none'):
                            kt = Tok('K', k, 'probe', L)
                            kept.add(kt.id)
                            nv = Tok('V', next(vcount), None, L) if kind == 'compute_inc' else None
                            rec['op'] = (kind, k, nv.id if nv else None)
                            seen = []

                            def f(itq, kp, vp, nv=nv, seen=seen):
                                seen.append(itq.load_ptr(vp).id)
                                return Agg('Option', 'Some', [nv]) if nv is not None else Agg('Option', 'None', [])
                            r = dt.compute_if_present(kt, f)
                            if len(seen) > 1:
                                raise Violation('mismatch', 'compute_if_present ran its function %d times' % len(seen))
                            if not seen:
                                rec['result'] = None
                                if nv is not None:
                                    kept.add(nv.id)
                            else:
                                rec['result'] = (seen[0], nv.id if nv else None)
                        elif kind in ('iter', 'keys', 'len'):
                            # read-only traversal / size query (not linearized: weakly consistent by contract); as a reader thread
                            # (ConcScenario.readers) it must never block or spin
                            if kind == 'len':
                                dt.len()
                            else:
                                dt.iter_all(kind)
                        elif kind == 'retain_none':
                            # retain with a predicate that rejects everything and records what it was shown.  It is not one atomic
                            # operation; its oracle is evaluated after the run (see `retain_seen` below)
                            seen_r = []

                            def fr(itq, kp, vp, seen_r=seen_r):
                                seen_r.append((itq.load_ptr(kp).val, itq.load_ptr(vp).id))
                                return Sc(False, 'bool')
                            dt.retain(fr, force=False)
                            retain_seen.extend(seen_r)
                            rec['retain_seen'] = list(seen_r)
                            rec['res_step'] = sched.step
                        elif kind == 'retain_force_none':
                            # retain_force with a predicate that rejects everything: for the final contents it acts like clear()
                            rec['op'] = ('clear',)
                            dt.retain(lambda itq, kp, vp: Sc(False, 'bool'), force=True)
                        elif kind == 'clear':
                            rec['op'] = ('clear',)
                            dt.clear()
                        elif kind == 'reserve':
                            rec['op'] = ('len',)
                            dt.reserve(k)
                            rec['op'] = None
                        rec['res_step'] = sched.step
                    # references this thread obtained from lookups stay valid until it releases its guard - also when it is
                    # descheduled right here while the other threads finish (and release theirs)
                    got = [h['result'] for h in hist if h['thread'] == ti and h['op'] and h['op'][0] == 'get' and h['result'] is not None]
                    if got:
                        itp.env.sp(itp, 'release of the guard (references from lookups still held)')
                        for vid in got:
                            if L.dropped.get(vid):
                                raise Violation('dropped-under-guard', 'T%d: the value #%s returned by its lookup was dropped while the guard under which it was obtained is still live' % (ti + 1, vid))
                    dt.unpin()
                if ti in sc.readers:
                    sched.readers.add(ti + 1)
                lt = LThread(ti + 1, 'T%d' % (ti + 1), body)
                attach(itx, sched, lt)
                sched.threads.append(lt)
            inv = None
            if sc.inv == 'resize':
                from .resize_inv import ResizeInvariant
                inv = ResizeInvariant(it0, d0)
                inv.check('the sequential setup')
                sched.on_step = inv.check
            elif sc.inv == 'treelock':
                from .resize_inv import WriterPreference
                inv = WriterPreference(it0, d0)
                inv.check('the sequential setup')
                sched.on_step = inv.check
            sched.run()
            if inv is not None:
                self.inv_checks = getattr(self, 'inv_checks', 0) + inv.checked
            self.sched_points += sched.step
            self.max_switches = max(self.max_switches, sched.switches)
            # final contents through the sequential interpreter
            d0.pin()
            final: Dict[int, int] = {}
            orc = Oracle(ctx)
            for kt, vt in d0.iter_all('iter'):
                if kt.val in final:
                    raise Violation('mismatch', 'key %d is stored twice after the concurrent run' % kt.val)
                final[kt.val] = vt.id
                orc.entries.append(Entry(kt, vt))
            ops = [h for h in hist if h['op'] is not None]
            # retain (not retain_force): an entry whose value was replaced after the predicate inspected it must stay.  If the
            # predicate was shown (k, v), a concurrent insert then replaced exactly v (it returned v), nobody else removed k, and k
            # is gone at the end, retain removed an entry it had not inspected in that state
            for (rk, rv) in retain_seen:
                if rk in final:
                    continue
                replaced = [h for h in ops if h['op'][0] == 'insert' and h['op'][1] == rk and h['result'] == rv]
                other_removals = [h for h in ops if h['op'][0] in ('remove', 'clear', 'compute_none') and (len(h['op']) < 2 or h['op'][1] == rk)]
                if replaced and not other_removals:
                    raise Violation('mismatch', 'retain removed key %s although its value (#%s, the one the predicate inspected) had been replaced by a concurrent insert before the removal (the insert returned #%s as previous value); the new value is lost' % (rk, rv, rv))
            # retain is not one atomic operation: per inspected entry it is a conditional removal `remove_if(k, inspected value)`
            # somewhere inside retain's interval.  Entries nobody else touches are applied up front (order-independent)
            lin_init = dict(init)
            # clear() is not one atomic operation either (like the JDK's): it empties bin after bin and re-reads a bin it has just
            # emptied, so an entry inserted meanwhile may be removed as well or survive.  Per key that another operation touches it is
            # modelled as two unconditional removals inside clear's interval; untouched keys are simply gone.
            clears = [h for h in ops if h['op'][0] == 'clear']
            if clears:
                ops = [h for h in ops if h['op'][0] != 'clear']
                touched_keys = {o['op'][1] for o in ops if len(o['op']) > 1}
                for k0 in list(lin_init):
                    if k0 not in touched_keys:
                        del lin_init[k0]
                for h in clears:
                    for k0 in sorted(touched_keys):
                        for _rep in range(2):
                            ops.append({'thread': h['thread'], 'op': ('remove_any', k0), 'result': ANY, 'inv_step': h['inv_step'], 'res_step': h['res_step']})
            for h in hist:
                for (rk, rv) in h.get('retain_seen', []):
                    touched = bool(clears) or any(len(o['op']) > 1 and o['op'][1] == rk for o in ops)
                    if touched:
                        ops.append({'thread': h['thread'], 'op': ('remove_if', rk, rv), 'result': ANY, 'inv_step': h['inv_step'], 'res_step': h['res_step']})
                    elif lin_init.get(rk) == rv:
                        del lin_init[rk]
            order = linearizable(lin_init, ops, final)
            if order is None:
                raise Violation('not-linearizable', 'no sequential order explains the history %s with initial %s and final contents %s' % (
                    [(h['thread'] + 1, h['op'], h['result'], h['inv_step'], h['res_step']) for h in ops], lin_init, final))
            q = Quiescence(d0, orc, lambda k: hfn(it0, k))
            try:
                q.check()
            except Mismatch as m:
                raise Violation('mismatch', m.what)
            d0.unpin()
            d0.drop_map()
            live = [t for t in L.live_tokens() if t.id not in kept]
            if live:
                raise Violation('leak', 'never dropped: %s' % live[:6])
            leaked = [a for a in L.allocs if not a.freed]
            if leaked:
                raise Violation('leak', 'allocations never freed: %s' % leaked[:6])
        except Violation as v:
            v.trace = list(sched.trace[-60:]) + ['  MIR stack: ' + ' > '.join(reversed(getattr(v, 'mir_stack', [])[:6]))]
            raise
        except Unwind as u:
            v = Violation('panic', 'a thread panicked: %s' % u.msg)
            v.trace = list(sched.trace[-60:])
            raise v
        finally:
            for itx in [it0] + [t.interp for t in sched.threads if t.interp is not None]:
                self.steps += itx.steps
                for k, n in itx.modelled.items():
                    self.modelled[k] = self.modelled.get(k, 0) + n
                for k, n in itx.executed.items():
                    self.executed[k] = self.executed.get(k, 0) + n
        if len(self.samples) < 2:
            self.samples.append({'scenario': sc.name, 'schedule': sched.trace[:40], 'history': [(h['thread'] + 1, h['op'], h['result']) for h in hist]})
        return True
