from __future__ import annotations
import argparse, importlib, os, sys, traceback
from . import common as C


def generic_replay(mod, prop, tier, path):
    """--replay <witness>: show the witness (native program with its arguments, witness schedule, or event graph) and decide the
    property again on the CURRENT tree; every check regenerates its encoding and re-executes its own counterexamples (natively
    where a native replay exists, in the interpreter for schedules), so exit 1 means the violation is still there."""
    try:
        text = open(path).read()
    except OSError as e:
        print('cannot read %s: %s' % (path, e))
        return 2
    print('---- witness %s (%d lines) ----' % (path, text.count('\n') + 1))
    print('\n'.join(text.split('\n')[:60]))
    print('---- re-deciding %s on the current tree ----' % prop)
    rc = mod.run(tier)
    base = os.path.basename(path)
    same = os.path.exists(os.path.join(C.REPLAY_DIR, prop, base)) and rc == 1
    print('replay: %s' % ('the check still reports a violation%s' % (' with the same witness file ' + base if same else '') if rc == 1 else 'no violation on the current tree' if rc == 0 else 'inconclusive'))
    return rc


def main():
    ap = argparse.ArgumentParser()
    ap.add_argument('prop')
    ap.add_argument('--tier', default=os.environ.get('VERIF_TIER', 'quick'))
    ap.add_argument('--replay', default=None)
    a = ap.parse_args()
    prop = a.prop.upper()
    tier = a.tier if a.tier in ('quick', 'thorough') else 'quick'
    os.environ['VERIF_TIER_RUNNING'] = tier          # per-scenario wall-clock budgets scale with the tier
    try:
        mod = importlib.import_module('fv.props.' + prop.lower())
    except ModuleNotFoundError:
        print('no check for', prop)
        return 2
    try:
        if a.replay:
            if hasattr(mod, 'replay'):
                return mod.replay(a.replay)
            return generic_replay(mod, prop, tier, a.replay)
        return mod.run(tier)
    except C.Inconclusive as e:
        print('INCONCLUSIVE property=%s %s' % (prop, e))
        return 2
    except C.BuildError as e:
        print('INCONCLUSIVE property=%s build failed: %s' % (prop, e))
        return 2
    except Exception:
        traceback.print_exc()
        print('INCONCLUSIVE property=%s internal error' % prop)
        return 2


if __name__ == '__main__':
    sys.exit(main())
