from __future__ import annotations
import argparse, importlib, os, sys, traceback
from . import common as C


def main():
    ap = argparse.ArgumentParser()
    ap.add_argument('prop')
    ap.add_argument('--tier', default=os.environ.get('VERIF_TIER', 'quick'))
    ap.add_argument('--replay', default=None)
    a = ap.parse_args()
    prop = a.prop.upper()
    tier = a.tier if a.tier in ('quick', 'thorough') else 'quick'
    try:
        mod = importlib.import_module('fv.props.' + prop.lower())
    except ModuleNotFoundError:
        print('no check for', prop)
        return 2
    try:
        if a.replay:
            return mod.replay(a.replay)
        return mod.run(tier)
    except C.Inconclusive as e:
        print('INCONCLUSIVE property=%s %s' % (prop, e))
        return 2
    except C.BuildError as e:
        print('INCONCLUSIVE property=%s build failed: %s' % (prop, e))
        return 2
    except Exception:
        traceback.print_exc()
        print('INCONCLUSIVE property=%s internal error' % prop)
        return 2


if __name__ == '__main__':
    sys.exit(main())
